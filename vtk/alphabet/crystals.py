"""XTAL alphabet: small unit cells covering lattice systems, centrings, (non)symmorphic groups.

A crystal is a plain dict {name, lattice(rows, Å), symbols, positions(frac), centring (primitive-matrix
letters that really tile it), polar(bool)} — JSON-able, independent of phonopy.
"""
from __future__ import annotations

import numpy as np

s3 = np.sqrt(3.0)


def _c(name, lat, sym, pos, centring=(), **kw):
    d = {"name": name, "lattice": np.array(lat, float).tolist(), "symbols": list(sym),
         "positions": np.array(pos, float).tolist(), "centring": list(centring)}
    d.update(kw)
    return d


def all_crystals():
    a = 4.0
    L = []
    L.append(_c("sc-1", np.eye(3) * 3.0, ["Cu"], [[0, 0, 0]]))
    L.append(_c("CsCl-2", np.eye(3) * 4.1, ["Cs", "Cl"], [[0, 0, 0], [.5, .5, .5]], polar=True))
    L.append(_c("NaCl-prim-2", [[0, 2.8, 2.8], [2.8, 0, 2.8], [2.8, 2.8, 0]], ["Na", "Cl"],
                [[0, 0, 0], [.5, .5, .5]], polar=True))
    L.append(_c("diamond-prim-2", [[0, 2.7, 2.7], [2.7, 0, 2.7], [2.7, 2.7, 0]], ["Si", "Si"],
                [[0, 0, 0], [.25, .25, .25]]))
    L.append(_c("zincblende-prim-2", [[0, 2.7, 2.7], [2.7, 0, 2.7], [2.7, 2.7, 0]], ["Zn", "S"],
                [[0, 0, 0], [.25, .25, .25]], polar=True))
    L.append(_c("fcc-conv-4", np.eye(3) * a, ["Al"] * 4,
                [[0, 0, 0], [0, .5, .5], [.5, 0, .5], [.5, .5, 0]], centring=["F"]))
    L.append(_c("bcc-conv-2", np.eye(3) * 3.2, ["Fe"] * 2, [[0, 0, 0], [.5, .5, .5]], centring=["I"]))
    L.append(_c("NaCl-conv-8", np.eye(3) * 5.6, ["Na"] * 4 + ["Cl"] * 4,
                [[0, 0, 0], [0, .5, .5], [.5, 0, .5], [.5, .5, 0],
                 [.5, .5, .5], [.5, 0, 0], [0, .5, 0], [0, 0, .5]], centring=["F"], polar=True))
    L.append(_c("NaCl-conv-8-interleaved", np.eye(3) * 5.6, ["Na", "Cl"] * 4,
                [[0, 0, 0], [.5, .5, .5], [0, .5, .5], [.5, 0, 0],
                 [.5, 0, .5], [0, .5, 0], [.5, .5, 0], [0, 0, .5]], centring=["F"], polar=True))
    L.append(_c("hex-1", [[3.0, 0, 0], [-1.5, 1.5 * s3, 0], [0, 0, 4.7]], ["Mg"], [[0, 0, 0]]))
    L.append(_c("hcp-2", [[3.0, 0, 0], [-1.5, 1.5 * s3, 0], [0, 0, 4.9]], ["Mg", "Mg"],
                [[1 / 3, 2 / 3, .25], [2 / 3, 1 / 3, .75]]))
    L.append(_c("wurtzite-4", [[3.2, 0, 0], [-1.6, 1.6 * s3, 0], [0, 0, 5.2]], ["Zn", "Zn", "O", "O"],
                [[1 / 3, 2 / 3, 0], [2 / 3, 1 / 3, .5], [1 / 3, 2 / 3, .382], [2 / 3, 1 / 3, .882]], polar=True))
    # trigonal P3 in hexagonal axes: three symmetry-equivalent atoms on a general position (site symmetry 1) + one on the axis
    x_, y_, z_ = 0.31, 0.12, 0.4
    L.append(_c("trig-P3-4", [[4.5, 0, 0], [-2.25, 2.25 * s3, 0], [0, 0, 5.1]], ["Ti", "O", "O", "O"],
                [[0, 0, 0.1], [x_, y_, z_], [-y_, x_ - y_, z_], [-x_ + y_, -x_, z_]], polar=True))
    # rhombohedral: primitive with angle != 60,90,109.47
    ar, al = 3.5, np.deg2rad(75.0)
    ca = np.cos(al)
    v1 = [ar, 0, 0]
    v2 = [ar * ca, ar * np.sin(al), 0]
    cx = ar * ca
    cy = ar * (ca - ca * ca) / np.sin(al)
    cz = np.sqrt(ar * ar - cx * cx - cy * cy)
    L.append(_c("rhomb-prim-1", [v1, v2, [cx, cy, cz]], ["Bi"], [[0, 0, 0]]))
    L.append(_c("rhomb-prim-2", [v1, v2, [cx, cy, cz]], ["Bi", "Sb"], [[0, 0, 0], [.237, .237, .237]], polar=True))
    # rhombohedral in hexagonal axes (obverse): 3 lattice points
    ah, ch = 4.0, 9.0
    L.append(_c("rhomb-hex-3", [[ah, 0, 0], [-ah / 2, ah * s3 / 2, 0], [0, 0, ch]], ["Bi"] * 3,
                [[0, 0, 0], [2 / 3, 1 / 3, 1 / 3], [1 / 3, 2 / 3, 2 / 3]], centring=["R"]))
    L.append(_c("tetra-P-1", [[3, 0, 0], [0, 3, 0], [0, 0, 4.3]], ["In"], [[0, 0, 0]]))
    L.append(_c("bct-conv-2", [[3, 0, 0], [0, 3, 0], [0, 0, 4.6]], ["In", "In"], [[0, 0, 0], [.5, .5, .5]],
                centring=["I"]))
    L.append(_c("perovskite-5", np.eye(3) * 3.9, ["Sr", "Ti", "O", "O", "O"],
                [[0, 0, 0], [.5, .5, .5], [.5, .5, 0], [.5, 0, .5], [0, .5, .5]], polar=True))
    L.append(_c("bct-AB-conv-4", [[3.9, 0, 0], [0, 3.9, 0], [0, 0, 6.1]], ["Ga", "Ga", "As", "As"],
                [[0, 0, 0], [.5, .5, .5], [0, 0, .37], [.5, .5, .87]], centring=["I"], polar=True))
    L.append(_c("rutile-6", [[4.6, 0, 0], [0, 4.6, 0], [0, 0, 2.95]], ["Ti", "Ti", "O", "O", "O", "O"],
                [[0, 0, 0], [.5, .5, .5], [.3, .3, 0], [.7, .7, 0], [.2, .8, .5], [.8, .2, .5]], polar=True))
    L.append(_c("ortho-P-1", [[3, 0, 0], [0, 3.7, 0], [0, 0, 4.4]], ["Ga"], [[0, 0, 0]]))
    L.append(_c("ortho-P-2", [[3, 0, 0], [0, 3.7, 0], [0, 0, 4.4]], ["Ga", "As"], [[0, 0, 0], [.5, .5, .41]],
                polar=True))
    L.append(_c("ortho-C-conv-2", [[3, 0, 0], [0, 3.7, 0], [0, 0, 4.4]], ["Ga"] * 2, [[0, 0, 0], [.5, .5, 0]],
                centring=["C"]))
    L.append(_c("ortho-A-conv-2", [[3, 0, 0], [0, 3.7, 0], [0, 0, 4.4]], ["Ga"] * 2, [[0, 0, 0], [0, .5, .5]],
                centring=["A"]))
    L.append(_c("ortho-I-conv-2", [[3, 0, 0], [0, 3.7, 0], [0, 0, 4.4]], ["Ga"] * 2, [[0, 0, 0], [.5, .5, .5]],
                centring=["I"]))
    L.append(_c("ortho-F-conv-4", [[3.4, 0, 0], [0, 4.1, 0], [0, 0, 4.9]], ["Ga"] * 4,
                [[0, 0, 0], [0, .5, .5], [.5, 0, .5], [.5, .5, 0]], centring=["F"]))
    be = np.deg2rad(103.0)
    mono = [[3.1, 0, 0], [0, 3.9, 0], [4.5 * np.cos(be), 0, 4.5 * np.sin(be)]]
    L.append(_c("mono-P2m-2", mono, ["Se", "Te"], [[0, 0, 0], [.5, .5, .5]]))
    L.append(_c("mono-C-conv-4", mono, ["Se", "Se", "Te", "Te"],
                [[0, 0, 0], [.5, .5, 0], [.27, 0, .41], [.77, .5, .41]], centring=["C"], polar=True))
    L.append(_c("mono-P21-2", mono, ["Se", "Se"], [[.13, .1, .21], [-.13, .6, -.21]]))
    L.append(_c("mono-Pc-2", mono, ["Se", "Se"], [[.13, .11, .21], [.13, -.11, .71]]))
    L.append(_c("mono-Pm-2", mono, ["Se", "Te"], [[.13, 0, .21], [.61, .5, .37]], polar=True))
    tri = [[3.2, 0, 0], [0.4, 3.8, 0], [0.7, -0.5, 4.3]]
    L.append(_c("tri-P-1bar-2", tri, ["Se", "Se"], [[.13, .21, .32], [-.13, -.21, -.32]]))
    L.append(_c("tri-P1-2", tri, ["Se", "Te"], [[.03, .01, .02], [.43, .57, .61]], polar=True))
    L.append(_c("tri-P1-3", tri, ["Na", "Cl", "O"], [[.03, .01, .02], [.43, .57, .61], [.81, .29, .33]], polar=True))
    return L


QUICK = ["sc-1", "CsCl-2", "NaCl-prim-2", "NaCl-conv-8-interleaved", "diamond-prim-2", "fcc-conv-4", "bcc-conv-2", "hcp-2", "wurtzite-4",
         "rhomb-prim-2", "rhomb-hex-3", "bct-conv-2", "ortho-C-conv-2", "ortho-A-conv-2", "mono-C-conv-4",
         "mono-P21-2", "tri-P1-3"]


def extra_crystals():
    """Crystals used by single checks for one feature (not part of the common walk)."""
    L = []
    # P4mm, two species on the same Wyckoff letter 4d (x,x,z); the second orbit is listed starting with its (-x,x,z) member, so the
    # two symmetry-independent representatives sit on differently oriented mirror planes (conjugate, not equal, site groups)
    x1, z1, x2, z2 = 0.21, 0.13, 0.34, 0.58
    L.append(_c("P4mm-dd-8", [[5.3, 0, 0], [0, 5.3, 0], [0, 0, 4.1]], ["Ga"] * 4 + ["As"] * 4,
                [[x1, x1, z1], [-x1, -x1, z1], [-x1, x1, z1], [x1, -x1, z1], [-x2, x2, z2], [x2, -x2, z2], [x2, x2, z2], [-x2, -x2, z2]], polar=True))
    # base-centred orthorhombic cell in a non-standard axis setting (centring vector (1/2,0,1/2): "B" centring, standard is A or C)
    L.append(_c("ortho-B-conv-4", [[3.1, 0, 0], [0, 3.9, 0], [0, 0, 4.7]], ["Ga", "Ga", "As", "As"],
                [[0, 0, 0], [.5, 0, .5], [0, .37, 0], [.5, .37, .5]], polar=True))
    # primitive tetragonal cells whose fourfold axis is a (b ~ c) or b (c ~ a): every pair order of "equivalent lattice vectors" occurs
    L.append(_c("tet-a-2", [[4.9, 0, 0], [0, 3.2, 0], [0, 0, 3.2]], ["Ga", "As"], [[0, 0, 0], [.5, .5, .5]]))
    L.append(_c("tet-b-2", [[3.2, 0, 0], [0, 4.9, 0], [0, 0, 3.2]], ["Ga", "As"], [[0, 0, 0], [.5, .5, .5]]))
    return L


def by_name():
    return {c["name"]: c for c in all_crystals() + extra_crystals()}


def variants(c, seed=0):
    """Order/offset variants: reversed atom order, positions outside [0,1), origin shifted by a generic vector."""
    out = [dict(c, variant="as-is")]
    n = len(c["symbols"])
    if n > 1:
        idx = list(range(n))[::-1]
        out.append(dict(c, variant="reversed", symbols=[c["symbols"][i] for i in idx],
                        positions=[c["positions"][i] for i in idx]))
    pos = np.array(c["positions"], float)
    shift = np.array([(-1) ** i * (1 + i % 2) for i in range(n)], float)[:, None] * np.array([1, 0, -1.0])
    out.append(dict(c, variant="outside", positions=(pos + shift).tolist()))
    g = np.random.default_rng(1000 + seed).uniform(0.05, 0.45, 3)
    out.append(dict(c, variant="shifted", positions=(pos + g).tolist()))
    # the way structures usually arrive: lattice and positions typed with 7 decimals (1/3 -> 0.3333333, a sqrt(3)/2 -> 2.5547750)
    out.append(dict(c, variant="typed7", lattice=np.round(np.array(c["lattice"], float), 7).tolist(), positions=np.round(pos, 7).tolist()))
    # coordinates known to 4 decimals only (a structure read from a paper): every atom is off its ideal site by a few 1e-5 in
    # fractional units, i.e. ~1e-4 Angstrom, and the user passes symprec=1e-3 so that the symmetry is still found
    nz = np.random.default_rng(2000 + seed).uniform(-3e-5, 3e-5, pos.shape)
    out.append(dict(c, variant="noisy4", positions=(pos + nz).tolist(), symprec=1e-3))
    return out


CENTRING = {
    "P": np.eye(3),
    "F": np.array([[0, .5, .5], [.5, 0, .5], [.5, .5, 0]]),
    "I": np.array([[-.5, .5, .5], [.5, -.5, .5], [.5, .5, -.5]]),
    "A": np.array([[1, 0, 0], [0, .5, -.5], [0, .5, .5]]),
    "C": np.array([[.5, .5, 0], [-.5, .5, 0], [0, 0, 1]]),
    "R": np.array([[2 / 3, -1 / 3, -1 / 3], [1 / 3, 1 / 3, -2 / 3], [1 / 3, 1 / 3, 1 / 3]]),
}


def to_phonopy(c, masses=None, magmoms=None):
    from phonopy.structure.atoms import PhonopyAtoms

    return PhonopyAtoms(symbols=c["symbols"], cell=np.array(c["lattice"]), scaled_positions=np.array(c["positions"]),
                        masses=masses, magnetic_moments=magmoms)
