"""C11 — densities of states are non-negative, normalised and additive.

Weight level: every assignment of vertex values from {0,1,2,3} (all orderings and tie patterns) to an isolated
tetrahedron in each of the 4 central-vertex roles x 13 frequencies x {I,J}, compiled and Python implementations,
against the geometric definition.  Geometry: tetrahedra tables for a family of lattices (each main diagonal chosen).
Mesh level: total/projected DOS through the Phonopy API (tetrahedron OpenMP kernel, Python iterator, smearing).
"""
from __future__ import annotations

import itertools

import numpy as np

from vtk import phx
from vtk.ref import tetra as TT

ID = "C11"
VARIANT = "omp"
TECHNIQUE = "exhaustive enumeration of all 4^4 vertex-value assignments x 4 vertex roles x frequency grid on the real tetrahedron kernels (C and Python) against the geometric definition; product walk over (crystal, mesh, symmetry, method, projection) for sum rules"
RULE = ("weights: case = (vertex value assignment); non-trivial = assignment has at least one tie or is not sorted; "
        "mesh: case = (crystal, mesh, method, projection option)")
ASSUMPTIONS = ["vtk/ref/tetra.py (Lehmann-Taut volume fraction, self-checked); B-spline (Curry-Schoenberg) form of the volume fraction, exact with tied vertex values, cross-checked against the closed Lehmann-Taut form"]
BUDGET = {"quick": 900, "thorough": 3400}

OMEGAS = np.array([-0.5, 0.0, 0.25, 0.5, 1.0, 1.3, 1.5, 2.0, 2.4, 2.5, 3.0, 3.2, 3.5])
OMEGAS_DEEP = np.array(sorted(set(OMEGAS.tolist() + [0.01, 0.05, 0.75, 0.99, 1.01, 1.7, 2.95, 3.05, 3.7, 4.0, 4.3, 2.001, 2.0 + 1e-6])))
UNEVEN = [0.0, 0.003, 2.0, 2.001]
BIG = 1e6
GEO_LATTICES = ["sc-1", "hcp-2", "rhomb-prim-2", "bct-conv-2", "mono-C-conv-4", "tri-P1-3", "NaCl-prim-2", "tri-P-1bar-2", "rhomb-prim-1"]


def selfcheck():
    TT.selfcheck()


def plan(tier, seed):
    groups = []
    deep = tier != "quick"
    # thorough: five integer levels plus an unevenly spaced alphabet (narrow gaps next to wide ones), every one of the 24
    # tetrahedra of the table as carrier, a denser frequency grid
    assigns = list(itertools.product(range(5 if deep else 4), repeat=4))
    if deep:
        assigns += [tuple(UNEVEN[i] for i in a) for a in itertools.product(range(4), repeat=4)]
    for k in range(0, len(assigns), 16):
        groups.append([{"kind": "weights", "values": list(a), "deep": deep} for a in assigns[k:k + 16]])
    gm = [[1, 1, 1], [3, 2, 2], [2, 5, 3], [1, 4, 9]] + ([[2, 2, 2], [9, 1, 1], [1, 9, 1], [4, 4, 3], [7, 5, 2], [16, 1, 3]] if tier != "quick" else [])
    groups.append([{"kind": "geometry", "xtal": n, "mesh": m} for n in GEO_LATTICES for m in gm])
    # lattice family: every lower-triangular lattice with diagonal from {1,1.3,2.1} and off-diagonals from {-0.6,0,0.45}
    # (729 lattices, most with a non-symmetric reciprocal matrix) x meshes
    fam = [{"kind": "geometry", "lat": [[a, 0, 0], [d, b, 0], [e, f, c_]], "mesh": m}
           for a, b, c_ in itertools.product((1.0, 1.3, 2.1), repeat=3) for d, e, f in itertools.product((-0.6, 0.0, 0.45), repeat=3)
           for m in (gm if tier != "quick" else [[1, 1, 1], [3, 2, 2], [1, 4, 9]])]
    groups += [fam[k:k + 150] for k in range(0, len(fam), 150)]
    groups.append([{"kind": "field", "xtal": n, "fieldseed": k} for n in GEO_LATTICES for k in range(16 if tier != "quick" else 4)])
    xt = ["NaCl-prim-2", "hcp-2", "tri-P1-3", "rhomb-prim-2", "mono-P21-2", "bct-conv-2"]
    meshes = [[3, 3, 3], [4, 3, 2], [2, 2, 5], [2, 3, 4]] if tier == "quick" else [[3, 3, 3], [4, 3, 2], [2, 2, 5], [5, 5, 5], [4, 4, 4], [1, 1, 7], [6, 2, 3], [7, 7, 7]]
    if deep:
        xt += ["wurtzite-4", "CsCl-2", "ortho-P-2", "diamond-prim-2", "trig-P3-4", "mono-Pc-2"]
    for n in xt:
        g = []
        for mesh in meshes:
            for method in ("tetra-omp", "tetra-py", "smear-normal", "smear-cauchy"):
                g.append({"kind": "mesh", "xtal": n, "mesh": mesh, "method": method})
        groups.append(g)
    meta = {"alphabet": {"vertex_assignments": len(assigns), "roles": 4, "omegas": len(OMEGAS), "functions": 2, "geometry_lattices": len(GEO_LATTICES),
                         "mesh_crystals": xt, "meshes": meshes, "methods": 4},
            "bound": "complete product", "exhaustive": True, "not_covered": ["meshes above 7x7x7"]}
    return groups, meta


_tm = {}


def _methods():
    if not _tm:
        from phonopy.structure.tetrahedron_method import TetrahedronMethod

        rec = np.eye(3)
        for lang in ("C", "Py"):
            tm = TetrahedronMethod(rec, mesh=[1, 1, 1], lang=lang)
            rga = np.asarray(tm.tetrahedra)
            ci = [int(np.where((rga[k] == 0).all(axis=1))[0][0]) for k in range(24)]
            _tm[lang] = (tm, rga, ci)
    return _tm


def isolated(lang, row, central, others, omegas, func):
    """Weight of the central grid point from ONE tetrahedron (all other 23 lie far above every omega): the central
    vertex carries value `central`, the three other vertices `others`."""
    tm, rga, ci = _methods()[lang]
    t = np.full((24, 4), BIG)
    vals = list(others)
    vals.insert(ci[row], central)
    t[row] = vals
    tm.set_tetrahedra_omegas(t)
    tm.run(np.asarray(omegas, float), value=func)
    return np.array(tm.get_integration_weight(), float)


def run_weights(case, seed):
    vals = np.array(case["values"], float)
    deep = case.get("deep", False)
    OMEGAS = OMEGAS_DEEP if deep else globals()["OMEGAS"]
    tms = _methods()
    nontriv = bool(len(set(case["values"])) < 4 or list(case["values"]) != sorted(case["values"]))
    n_eval = 0
    worst = 0.0
    at_vertex_drop = False
    for func in ("I", "J"):
        tot = {"C": np.zeros(len(OMEGAS)), "Py": np.zeros(len(OMEGAS))}
        for role in range(4):  # which of the four vertices is the central grid point
            central = vals[role]
            others = [vals[i] for i in range(4) if i != role]
            res = {}
            for lang in ("C", "Py"):
                tm, rga, ci = tms[lang]
                rows = list(range(24)) if deep else sorted({0, 7, 23, [k for k in range(24) if ci[k] == max(ci)][0]})
                rr = [isolated(lang, r, central, others, OMEGAS, func) for r in rows]
                rr.append(isolated(lang, rows[0], central, others[::-1], OMEGAS, func))  # order of the other vertices is irrelevant
                n_eval += len(rr)
                for r1 in rr[1:]:
                    if np.abs(rr[0] - r1).max() > 1e-12:
                        return dict(ok=False, sig="C11/weights/depends-on-row-or-vertex-order/%s/%s" % (lang, func), nontrivial=nontriv,
                                    msg="values %s central vertex %d: the %s weight depends on which tetrahedron / vertex order carries the values" % (case["values"], role, func))
                r0 = rr[0]
                res[lang] = r0
                tot[lang] += r0
                if not np.isfinite(r0).all():
                    return dict(ok=False, sig="C11/weights/non-finite/%s/%s" % (lang, func), nontrivial=nontriv, msg="values %s role %d: non-finite weight" % (case["values"], role))
                if func == "J":
                    if (r0 < -1e-12).any() or (r0 > 1 / 6 + 1e-12).any():
                        return dict(ok=False, sig="C11/weights/J-out-of-range/%s" % lang, nontrivial=nontriv, msg="values %s role %d: J weight outside [0,1/6]: %s" % (case["values"], role, r0))
                    offv = np.array([np.abs(w - vals).min() > 1e-9 for w in OMEGAS])
                    if (np.diff(r0[offv]) < -1e-12).any():
                        return dict(ok=False, sig="C11/weights/J-not-monotone/%s" % lang, nontrivial=nontriv, msg="values %s role %d: J decreases with frequency" % (case["values"], role))
                    if (np.diff(r0) < -1e-12).any():
                        at_vertex_drop = True
                elif (r0 < -1e-12).any():
                    return dict(ok=False, sig="C11/weights/I-negative/%s" % lang, nontrivial=nontriv, msg="values %s role %d: negative I weight" % (case["values"], role))
            d = np.abs(res["C"] - res["Py"]).max()
            worst = max(worst, d)
            if d > 1e-11:
                w = OMEGAS[int(np.abs(res["C"] - res["Py"]).argmax())]
                return dict(ok=False, sig="C11/weights/C-vs-Py/%s" % func, resid=float(d), nontrivial=nontriv,
                            msg="vertex values %s, central vertex %d, %s at omega=%g: compiled %r, Python %r" % (case["values"], role, func, w, res["C"].tolist(), res["Py"].tolist()))
        # sum over the four choices of the central vertex = geometric definition (volume fraction / density) / 6
        if len(set(case["values"])) == 1 and func == "I":
            continue  # flat tetrahedron: the density is a delta function
        for lang in ("C", "Py"):
            for k, w in enumerate(OMEGAS):
                at_vertex = np.abs(w - vals).min() < 1e-9
                if at_vertex and func == "I":
                    continue  # g(w) has kinks / jumps exactly at the vertex values
                want = (TT.n_exact(w, vals) if func == "J" else TT.g_exact(w, vals)) / 6.0
                if abs(tot[lang][k] - want) <= 2e-5 * max(1.0, abs(want)):
                    continue
                if func == "J" and at_vertex:
                    # at a frequency equal to tied vertex values the cumulative weight jumps: any value between the
                    # one-sided limits is a valid convention
                    lo = TT.n_exact(w - 1e-5, vals) / 6.0
                    hi = TT.n_exact(w + 1e-5, vals) / 6.0
                    if lo - 1e-4 <= tot[lang][k] <= hi + 1e-4:
                        continue
                    if tot[lang][k] < lo:
                        at_vertex_drop = True  # same defect as the monotonicity drop: omega == v[i] falls through the case split
                        continue
                return dict(ok=False, sig="C11/weights/vs-geometric-definition/%s/%s" % (lang, func), nontrivial=nontriv,
                            msg="vertex values %s: sum over central-vertex choices of %s at omega=%g is %r, volume-fraction definition gives %r" % (case["values"], func, w, tot[lang][k], want))
    # the module-level function (one float, a list, arrays in other memory layouts) agrees with the class on the same numbers
    from phonopy.structure.tetrahedron_method import get_tetrahedra_integration_weight as gtw

    tm, rga, ci = tms["C"]
    g_ = np.random.default_rng(int(sum(v * 5 ** k for k, v in enumerate(np.rint(vals * 1000).astype(int) % 5))))
    t = np.full((24, 4), BIG)
    for r_ in range(24):
        t[r_] = np.array(vals)[g_.permutation(4)] + 0.01 * r_
    om = np.array(OMEGAS, float)
    for func in ("I", "J"):
        tm.set_tetrahedra_omegas(t)
        tm.run(om, value=func)
        want_w = np.array(tm.get_integration_weight(), float)
        wide = np.zeros((24, 4, 3))
        wide[:, :, 1] = t
        wide[:, :, 0] = 123.0
        om2 = np.repeat(om, 2)
        om2[1::2] = -9.0
        variants = {"contiguous": (om, t), "list": (om.tolist(), t.tolist()), "band-slice-of-(24,4,nband)": (om, wide[:, :, 1]),
                    "fortran-order": (om, np.asfortranarray(t)), "every-other-frequency": (om2[::2], t)}
        for nm, (o_, t_) in variants.items():
            got_w = np.array(gtw(o_, t_, function=func))
            n_eval += 1
            if np.abs(got_w - want_w).max() > 1e-12:
                return dict(ok=False, sig="C11/weights/function-vs-class/%s" % func, nontrivial=nontriv,
                            msg="get_tetrahedra_integration_weight with the inputs as %s differs from TetrahedronMethod on the same numbers (by %.3g)" % (nm, np.abs(got_w - want_w).max()))
        one = gtw(float(om[3]), t, function=func)
        if abs(one - want_w[3]) > 1e-12:
            return dict(ok=False, sig="C11/weights/function-vs-class/%s" % func, nontrivial=nontriv, msg="get_tetrahedra_integration_weight(float) differs from the class")
    if at_vertex_drop:
        return dict(ok=False, sig="C11/weights/J-drops-at-frequency-equal-to-vertex-value", nontrivial=nontriv, transitions=n_eval,
                    msg="vertex values %s: at a frequency exactly equal to a vertex value the cumulative weight falls below its value at lower frequencies (strict inequalities in the case split leave omega == v[i] without a branch)" % case["values"])
    return dict(ok=True, nontrivial=nontriv, transitions=n_eval, resid=float(worst), outcome="ok:weights")


def run_geometry(case, seed):
    from phonopy.structure.tetrahedron_method import TetrahedronMethod, get_all_tetrahedra_relative_grid_address

    c = phx.xtal(case["xtal"]) if "xtal" in case else {"lattice": case["lat"]}
    case = dict(case, xtal=case.get("xtal", "lattice %s" % case.get("lat")))
    rec = np.linalg.inv(np.array(c["lattice"], float))  # columns a*, b*, c*
    mesh = case["mesh"]
    micro = rec / np.array(mesh, float)
    sets = {}
    for lang in ("C", "Py"):
        tm = TetrahedronMethod(rec, mesh=mesh, lang=lang)
        rga = np.asarray(tm.tetrahedra)
        if rga.shape != (24, 4, 3):
            return dict(ok=False, sig="C11/geometry/shape/" + lang, msg="tetrahedra shape %s" % (rga.shape,))
        vol = []
        diag = set()
        for t in rga:
            if not (t == 0).all(axis=1).any():
                return dict(ok=False, sig="C11/geometry/no-origin/" + lang, msg="a tetrahedron does not contain the central grid point")
            v = (t[1:] - t[0]).astype(float)
            vol.append(abs(np.linalg.det(v)))
            for a in range(4):
                for b in range(a + 1, 4):
                    e = t[b] - t[a]
                    if (np.abs(e) == 1).all():
                        diag.add(tuple(e * np.sign(e[0])))
        if np.abs(np.array(vol) - 1.0).max() > 1e-12:
            return dict(ok=False, sig="C11/geometry/volume/" + lang, msg="tetrahedra volumes (x6, in microcells) %s" % sorted(set(vol)))
        if len({tuple(sorted(map(tuple, t.tolist()))) for t in rga}) != 24:
            return dict(ok=False, sig="C11/geometry/duplicate/" + lang, msg="duplicate tetrahedra")
        if len(diag) != 1:
            return dict(ok=False, sig="C11/geometry/diagonal/" + lang, msg="tetrahedra use %d different body diagonals" % len(diag))
        d = np.array(next(iter(diag)), float)
        lens = {s: np.linalg.norm(micro @ np.array(s, float)) for s in ((1, 1, 1), (1, 1, -1), (1, -1, 1), (1, -1, -1))}
        if lens[tuple(int(x) for x in d)] > min(lens.values()) * (1 + 1e-9):
            return dict(ok=False, sig="C11/geometry/not-shortest-diagonal/" + lang, msg="%s mesh=%s: main diagonal %s (%.5f) is not a shortest one (%s)" % (case["xtal"], mesh, d.tolist(), lens[tuple(int(x) for x in d)], lens))
        # the 24 tetrahedra fill the 8 microcells around the centre 3 times... each microcell corner-sharing: total volume 24/6 = 4 cells
        sets[lang] = ({tuple(sorted(map(tuple, t.tolist()))) for t in rga}, tuple(int(x) for x in d))
    if sets["C"][0] != sets["Py"][0]:
        return dict(ok=False, sig="C11/geometry/C-vs-Py", msg="%s mesh=%s: compiled and Python tetrahedra differ" % (case["xtal"], mesh))
    allr = np.asarray(get_all_tetrahedra_relative_grid_address())
    if allr.shape != (4, 24, 4, 3) or not any({tuple(sorted(map(tuple, t.tolist()))) for t in allr[k]} == sets["C"][0] for k in range(4)):
        return dict(ok=False, sig="C11/geometry/all-tables", msg="chosen table is not one of the four main-diagonal tables")
    return dict(ok=True, nontrivial=True, transitions=3, outcome="ok:geometry:diag=%s" % (sets["C"][1],))


def run_field(case, seed):
    """Periodic 3x3x3 field: per-grid-point weights C == Py, in [0,1], monotone, sum over the mesh = sum of volume fractions."""
    from phonopy.structure.tetrahedron_method import TetrahedronMethod

    c = phx.xtal(case["xtal"])
    rec = np.linalg.inv(np.array(c["lattice"], float))
    g = np.random.default_rng(100 + seed + case["fieldseed"])
    field = g.uniform(0, 3, (3, 3, 3))
    if case["fieldseed"] == 1:
        field = np.round(field)
    if case["fieldseed"] == 2:
        field[:] = 1.5
        field[0, 0, 0] = 1.0
    om = np.linspace(-0.2, 3.3, 15)
    tot = {}
    for lang in ("C", "Py"):
        tm = TetrahedronMethod(rec, mesh=[3, 3, 3], lang=lang)
        rga = np.asarray(tm.tetrahedra)
        J = np.zeros((27, len(om)))
        I = np.zeros((27, len(om)))
        nsum = np.zeros(len(om))
        for gi, gp in enumerate(itertools.product(range(3), repeat=3)):
            adr = (rga + np.array(gp)) % 3
            t = field[adr[..., 0], adr[..., 1], adr[..., 2]]
            tm.set_tetrahedra_omegas(t)
            tm.run(om, value="J")
            J[gi] = tm.get_integration_weight()
            tm.run(om, value="I")
            I[gi] = tm.get_integration_weight()
            if case["fieldseed"] != 2:
                for k, w in enumerate(om):
                    nsum[k] += sum((TT.n_exact(w, row) if len(set(row.tolist())) > 1 else float(w > row[0])) for row in t) / 24.0
        tot[lang] = (J, I, nsum)
        if (J < -1e-12).any() or (J > 1 + 1e-12).any():
            return dict(ok=False, sig="C11/field/J-out-of-range/" + lang, msg="%s: cumulative weight outside [0,1]" % case["xtal"])
        if (np.diff(J, axis=1) < -1e-12).any():
            return dict(ok=False, sig="C11/field/J-not-monotone/" + lang, msg="%s: cumulative weight decreases" % case["xtal"])
        if (I < -1e-12).any():
            return dict(ok=False, sig="C11/field/I-negative/" + lang, msg="%s: negative density weight" % case["xtal"])
        if np.abs(J[:, -1] - 1).max() > 1e-12 or np.abs(J[:, 0]).max() > 1e-12:
            return dict(ok=False, sig="C11/field/J-limits/" + lang, msg="%s: cumulative weight is not 0 below / 1 above the spectrum" % case["xtal"])
        if case["fieldseed"] == 0 and np.abs(J.sum(axis=0) - nsum).max() > 1e-6 * 27:
            return dict(ok=False, sig="C11/field/vs-geometric-definition/" + lang, msg="%s: sum of cumulative weights over the mesh differs from the total sub-level volume by %.3g" % (case["xtal"], np.abs(J.sum(axis=0) - nsum).max()))
    for name, a, b in (("J", tot["C"][0], tot["Py"][0]), ("I", tot["C"][1], tot["Py"][1])):
        if np.abs(a - b).max() > 1e-10:
            return dict(ok=False, sig="C11/field/C-vs-Py/" + name, msg="%s field %d: compiled and Python %s weights differ by %.3g" % (case["xtal"], case["fieldseed"], name, np.abs(a - b).max()))
    return dict(ok=True, nontrivial=True, transitions=108, outcome="ok:field")


_ph = {}


def run_mesh(case, seed):
    from phonopy.phonon.dos import ProjectedDos, TotalDos

    key = case["xtal"]
    if key not in _ph:
        c = phx.xtal(key)
        S = [[2, 0, 0], [0, 2, 0], [0, 0, 2]]  # a 1x1x1 supercell has flat bands (delta-function DOS): useless here
        ph = phx.make_phonopy(c, S, None)
        ph.force_constants = phx.supercell_fc(ph, phx.model_for(ph, "long", seed))  # long range: dispersive bands
        _ph[key] = ph
    ph = _ph[key]
    mesh = case["mesh"]
    method = case["method"]
    nb = 3 * len(ph.primitive)
    tag = method

    def fail(kind, msg, resid=None):
        return dict(ok=False, sig="C11/mesh/%s/%s" % (kind, tag), resid=resid, nontrivial=True, msg="%s mesh=%s %s: %s" % (case["xtal"], mesh, method, msg))

    tetra = method.startswith("tetra")
    out = {}
    for ms in (False, True):
        ph.run_mesh(mesh, with_eigenvectors=not ms, is_mesh_symmetry=ms)
        m = ph.mesh
        fmin, fmax = m.frequencies.min(), m.frequencies.max()
        span = fmax - fmin
        sigma = None if tetra else span / 40
        td = TotalDos(m, sigma=sigma, use_tetrahedron_method=tetra)
        if not tetra:
            td.set_smearing_function("Normal" if method == "smear-normal" else "Cauchy")
        td._openmp_thm = (method == "tetra-omp")
        pitch = span / 300
        lo, hi = (fmin - 0.05 * span, fmax + 0.05 * span) if tetra else (fmin - 12 * span / 40, fmax + 12 * span / 40)
        td.set_draw_area(freq_min=lo, freq_max=hi, freq_pitch=pitch)
        td.run()
        dos = np.array(td.dos)
        fp = np.array(td.frequency_points)
        if not np.isfinite(dos).all() or (dos < -1e-10).any():
            return fail("negative-or-non-finite", "total DOS min %.3g" % np.nanmin(dos))
        integ = float(np.sum((dos[1:] + dos[:-1]) / 2 * np.diff(fp)))
        tol = 0.02 * nb if method != "smear-cauchy" else 0.08 * nb
        # tetrahedron method: only the cumulative weights are exactly normalised (flat tetrahedra carry delta functions
        # that a frequency grid cannot integrate) -> checked below with value='J'
        if not tetra and abs(integ - nb) > tol:
            return fail("normalisation", "integral of the total DOS = %.5f, number of bands %d" % (integ, nb), abs(integ - nb) / nb)
        out[ms] = dos
        if method == "tetra-omp":
            # the compiled whole-mesh kernel and the Python iterator walk the same grid: same DOS
            td2 = TotalDos(m, sigma=None, use_tetrahedron_method=True)
            td2._openmp_thm = False
            td2.set_draw_area(freq_min=lo, freq_max=hi, freq_pitch=pitch)
            td2.run()
            e = np.abs(np.array(td2.dos) - dos).max() / max(dos.max(), 1e-12)
            if e <= 1e-9 and not ms:
                # the public wrapper of the kernel evaluates the DOS at whatever frequency points the caller lists, in any order
                from phonopy.phonon.dos import run_tetrahedron_method_dos
                from phonopy.structure.tetrahedron_method import TetrahedronMethod as _TM

                tm_ = _TM(np.linalg.inv(np.asarray(ph.primitive.cell)), mesh=m.mesh_numbers)
                g_ = np.random.default_rng(17)
                for oname, perm in (("ascending", np.arange(len(fp))), ("descending", np.arange(len(fp))[::-1]), ("shuffled", g_.permutation(len(fp)))):
                    got_ = run_tetrahedron_method_dos(m.mesh_numbers, np.array(fp[perm], dtype="double", order="C"), m.frequencies, m.grid_address, m.grid_mapping_table, tm_.tetrahedra)
                    e2 = np.abs(np.asarray(got_) - dos[perm]).max() / max(dos.max(), 1e-12)
                    if e2 > 1e-9:
                        return fail("frequency-point-order", "run_tetrahedron_method_dos with the frequency points in %s order differs from the ascending evaluation by %.3g (rel)" % (oname, e2), float(e2))
            if e > 1e-9:
                return fail("omp-kernel-vs-iterator", "mesh_symmetry=%s: the compiled whole-mesh tetrahedron DOS differs from the per-grid-point iterator by %.3g (rel)" % (ms, e), float(e))
        if not ms:
            res = {}
            for opt, kw in (("atoms", {}), ("xyz", {"xyz_projection": True})):
                pd = ProjectedDos(m, sigma=sigma, use_tetrahedron_method=tetra, **kw)
                if not tetra:
                    pd.set_smearing_function("Normal" if method == "smear-normal" else "Cauchy")
                pd._openmp_thm = (method == "tetra-omp")
                pd.set_draw_area(freq_min=lo, freq_max=hi, freq_pitch=pitch)
                pd.run()
                p = np.array(pd.projected_dos)
                res[opt] = p
                if (p < -1e-10).any() or not np.isfinite(p).all():
                    return fail("pdos-negative/" + opt, "projected DOS min %.3g" % np.nanmin(p))
                e = np.abs(p.sum(axis=0) - dos).max() / max(dos.max(), 1e-12)
                if e > 1e-9:
                    return fail("pdos-sum/" + opt, "sum of projected DOS differs from the total DOS by %.3g (rel)" % e, float(e))
            # xyz components of each atom add up to the atom's PDOS
            e = np.abs(res["xyz"].reshape(len(ph.primitive), 3, -1).sum(axis=1) - res["atoms"]).max() / max(dos.max(), 1e-12)
            if e > 1e-9:
                return fail("pdos-xyz-vs-atoms", "x+y+z projected DOS differs from the atom-projected DOS by %.3g" % e, float(e))
            # an orthonormal triple of directions adds up to the atom-projected DOS (through the public API: reduced coordinates)
            th = 0.7
            tri = np.array([[np.cos(th), np.sin(th), 0], [-np.sin(th) * np.cos(0.4), np.cos(th) * np.cos(0.4), np.sin(0.4)],
                            [np.sin(th) * np.sin(0.4), -np.cos(th) * np.sin(0.4), np.cos(0.4)]])
            acc = 0
            for dvec in tri:
                dred = dvec @ np.linalg.inv(np.asarray(ph.primitive.cell))
                ph.run_projected_dos(sigma=sigma, freq_min=lo, freq_max=hi, freq_pitch=pitch, use_tetrahedron_method=tetra, direction=dred)
                if not tetra and method == "smear-cauchy":
                    pass
                acc = acc + np.array(ph.get_projected_dos_dict()["projected_dos"])
            ph.run_projected_dos(sigma=sigma, freq_min=lo, freq_max=hi, freq_pitch=pitch, use_tetrahedron_method=tetra)
            ref = np.array(ph.get_projected_dos_dict()["projected_dos"])
            e = np.abs(acc - ref).max() / max(ref.max(), 1e-12)
            if e > 1e-9:
                return fail("pdos-direction-triple", "projections on an orthonormal triple of directions do not add up to the atom-projected DOS (%.3g rel)" % e, float(e))
        if tetra and ms is False:
            # exact normalisation: cumulative tetrahedron weights above the top of the spectrum
            from phonopy.phonon.tetrahedron_mesh import TetrahedronMesh

            thm = TetrahedronMesh(ph.primitive, m.frequencies, m.mesh_numbers, np.array(m.grid_address, dtype="int64"), np.array(m.grid_mapping_table, dtype="int64"), m.ir_grid_points)
            thm.set(value="J", frequency_points=np.array([fmax + 1.0, fmin - 1.0]))
            tot = np.zeros(2)
            for i, iw in enumerate(thm):
                tot += np.sum(iw * m.weights[i], axis=1)
            if abs(tot[0] - nb) > 1e-10 * nb or abs(tot[1]) > 1e-12:
                return fail("cumulative-normalisation", "cumulative weight above the spectrum = %r (bands: %d), below = %r" % (tot[0], nb, tot[1]))
            # history: the same object set and walked again gives what a fresh object gives (J again, then I on another grid)
            for val, pts in (("J", np.array([fmax + 1.0, fmin - 1.0])), ("I", np.array([0.5 * (fmin + fmax), fmax + 1.0, 0.3 * fmin + 0.7 * fmax]))):
                fresh = TetrahedronMesh(ph.primitive, m.frequencies, m.mesh_numbers, np.array(m.grid_address, dtype="int64"), np.array(m.grid_mapping_table, dtype="int64"), m.ir_grid_points)
                fresh.set(value=val, frequency_points=pts)
                thm.set(value=val, frequency_points=pts)
                a = [np.array(iw) for iw in fresh]
                b = [np.array(iw) for iw in thm]
                if len(a) != len(b) or any(not np.allclose(x, y, rtol=0, atol=1e-12) for x, y in zip(a, b)):
                    return fail("reused-object", "a TetrahedronMesh that was already walked once yields %d grid points on the next set(value=%r), a fresh one %d" % (len(b), val, len(a)))
        if method in ("tetra-py",):
            # history: run() a second time on the same DOS object (after another set_draw_area) = a fresh object
            td.set_draw_area(freq_min=lo, freq_max=hi, freq_pitch=pitch)
            td.run()
            e = np.abs(np.array(td.dos) - dos).max() / max(dos.max(), 1e-12)
            if e > 1e-12:
                return fail("rerun", "mesh_symmetry=%s: TotalDos.run() a second time on the same object changes the DOS by %.3g (rel)" % (ms, e), float(e))
        if ms:
            # symmetry-reduced mesh with eigenvectors: the weights of the q-points enter the projected DOS as they enter the total
            ph.run_mesh(mesh, with_eigenvectors=True, is_mesh_symmetry=True)
            m2 = ph.mesh
            # (total DOS of the very same mesh object: eigh and eigvalsh frequencies differ in the last bits, which smearing amplifies)
            td3 = TotalDos(m2, sigma=sigma, use_tetrahedron_method=tetra)
            if not tetra:
                td3.set_smearing_function("Normal" if method == "smear-normal" else "Cauchy")
            td3._openmp_thm = (method == "tetra-omp")
            td3.set_draw_area(freq_min=lo, freq_max=hi, freq_pitch=pitch)
            td3.run()
            dos3 = np.array(td3.dos)
            for opt, kw in (("atoms", {}), ("xyz", {"xyz_projection": True})):
                pd = ProjectedDos(m2, sigma=sigma, use_tetrahedron_method=tetra, **kw)
                if not tetra:
                    pd.set_smearing_function("Normal" if method == "smear-normal" else "Cauchy")
                pd._openmp_thm = (method == "tetra-omp")
                pd.set_draw_area(freq_min=lo, freq_max=hi, freq_pitch=pitch)
                pd.run()
                e = np.abs(np.array(pd.projected_dos).sum(axis=0) - dos3).max() / max(dos3.max(), 1e-12)
                if e > 1e-9:
                    return fail("pdos-sum-reduced-mesh/" + opt, "on the symmetry-reduced mesh the projected DOS add up to something that differs from the total DOS by %.3g (rel)" % e, float(e))
    e = np.abs(out[True] - out[False]).max() / max(out[False].max(), 1e-12)
    # (the tetrahedron division singles out one body diagonal and is not invariant under the point group, so equality of
    # reduced and full meshes is only asked of the smearing method, as in the statement of C09)
    if not tetra and e > 1e-6:  # smearing amplifies 1e-10 frequency differences between equivalent q by ~1/sigma
        return fail("reduced-vs-full", "total DOS with mesh symmetry differs from the full mesh by %.3g (rel)" % e, float(e))
    return dict(ok=True, nontrivial=True, transitions=8, outcome="ok:mesh:" + method)


def run_group(cases, seed):
    fn = {"weights": run_weights, "geometry": run_geometry, "field": run_field, "mesh": run_mesh}
    return [fn[c["kind"]](c, seed) for c in cases]
