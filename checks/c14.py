"""C14 — one spectrum: every access path and output option reports the same phonons.

Product walk over crystals x NAC x ALL 2^3 combinations of (with_eigenvectors, with_group_velocities,
with_dynamical_matrices) x nac_q_direction x access path (q-point list, band path with/without connection, mesh
stored / iterated, dynamical-matrix object, single-q getters) on one shared q-set, before and after calls that could
leave state behind; files written from the results (yaml, hdf5) are parsed back and compared at the printed precision.
"""
from __future__ import annotations

import itertools
import os
import tempfile

import numpy as np

from vtk import phx

ID = "C14"
VARIANT = "omp"
VARIANTS_NEEDED = ["omp"]
TECHNIQUE = "bounded-exhaustive product walk over (crystal, NAC, all 2^3 output-option combinations, q-direction, access path); pairwise-agreement and eigen-equation oracles on the real API; written files parsed back"
RULE = ("case = (crystal, NAC method); all option combinations and access paths are evaluated inside on one q-set; non-trivial = "
        "the crystal has complex dynamical matrices or degenerate bands or NAC")
ASSUMPTIONS = ["numpy eigh; PyYAML and h5py as independent file readers", "serial-vs-OpenMP agreement of the same scenarios is checked by C13's binding part"]
BUDGET = {"quick": 900, "thorough": 3400}

XT = ["NaCl-prim-2", "diamond-prim-2", "wurtzite-4", "tri-P1-3", "hcp-2", "CsCl-2"]
XT_T = ["sc-1", "zincblende-prim-2", "rhomb-prim-2", "bct-conv-2", "rutile-6", "ortho-P-2", "mono-P21-2", "mono-Pc-2", "tri-P-1bar-2", "trig-P3-4", "fcc-conv-4", "mono-C-conv-4"]
NACX = {"NaCl-prim-2", "wurtzite-4", "tri-P1-3", "CsCl-2"}


def plan(tier, seed):
    groups = []
    for name in XT:
        for nac in ((None, "wang", "gonze") if name in NACX else (None,)):
            groups.append([{"xtal": name, "nac": nac}])
    # a non-default unit factor (every calculator but VASP has one)
    for name in XT[:3] if tier == "quick" else XT:
        for nac in ((None, "wang") if name in NACX else (None,)):
            groups.append([{"xtal": name, "nac": nac, "factor": 108.97077}])
    if tier != "quick":
        # thorough: other meshes (odd, anisotropic), longer-ranged model, non-diagonal supercell, more crystals
        for name in XT:
            for nac in ((None, "wang", "gonze") if name in NACX else (None,)):
                for mesh, model in (([3, 3, 3], "nn"), ([2, 3, 1], "short"), ([1, 1, 4], "nn")):
                    groups.append([{"xtal": name, "nac": nac, "mesh": mesh, "model": model}])
        for name in XT_T:
            for mesh in ([2, 2, 2], [3, 2, 1]):
                groups.append([{"xtal": name, "nac": None, "mesh": mesh, "model": "nn"}])
        for name in ("NaCl-prim-2", "tri-P1-3", "hcp-2"):
            for nac in ((None, "gonze") if name in NACX else (None,)):
                groups.append([{"xtal": name, "nac": nac, "S": [[2, 1, 0], [0, 2, 0], [0, 0, 2]] if name != "NaCl-prim-2" else [[-2, 2, 2], [2, -2, 2], [2, 2, -2]], "mesh": [2, 2, 3]}])
    meta = {"alphabet": {"crystals": XT, "nac": ["none", "wang", "gonze"], "option_combinations": 8, "q_direction": 2,
                         "paths": ["run_qpoints", "run_band_structure(connection off/on)", "run_mesh", "iter_mesh", "dynamical_matrix.run+eigh",
                                   "get_frequencies", "get_frequencies_with_eigenvectors", "get_dynamical_matrix_at_q", "yaml", "hdf5"]},
            "bound": "complete product", "exhaustive": True, "not_covered": ["serial build (see C13 binding)"]}
    return groups, meta


def clusters(f, tol):
    out, cur = [], [0]
    for i in range(1, len(f)):
        if abs(f[i] - f[i - 1]) < tol:
            cur.append(i)
        else:
            out.append(cur)
            cur = [i]
    out.append(cur)
    return out


def same_gv(f, g1, g2, tol_f, tol):
    """group velocities agree band by band; inside a degenerate cluster as sets"""
    for cl in clusters(f, tol_f):
        a = np.array(sorted(map(tuple, np.round(g1[cl], 7).tolist())))
        b = np.array(sorted(map(tuple, np.round(g2[cl], 7).tolist())))
        if np.abs(a - b).max() > tol:
            return False
    return True


def run_group(cases, seed):
    return [run_case(c, seed) for c in cases]


def run_case(case, seed):
    import h5py
    import yaml
    from vtk import scenarios as SC

    name, nac = case["xtal"], case["nac"]
    tag = "nac=%s" % nac
    S = [[2, 0, 0], [0, 2, 0], [0, 0, 2]] if name != "wurtzite-4" else [[2, 0, 0], [0, 2, 0], [0, 0, 1]]
    if case.get("S"):
        S = case["S"]
    c = phx.xtal(name)
    import phonopy.units as U0

    FACT = case.get("factor") or U0.VaspToTHz
    ph = phx.make_phonopy(c, S, None, **({"factor": case["factor"]} if case.get("factor") else {}))
    if case.get("factor"):
        tag += "/factor=%g" % case["factor"]
    MESH = case.get("mesh", [2, 2, 2])
    ph.force_constants = phx.supercell_fc(ph, phx.model_for(ph, case.get("model", "nn"), seed))
    if nac:
        ph.nac_params = SC.nac_params(name, nac) if name in SC.NAC else dict(SC.nac_params("NaCl-prim-2", nac), born=np.array([np.eye(3) * 1.2, np.eye(3) * -1.2]))
    nb = 3 * len(ph.primitive)
    trans = 0

    def fail(kind, msg):
        return dict(ok=False, sig="C14/%s/%s" % (kind, tag), nontrivial=True, transitions=trans, msg="%s %s: %s" % (name, tag, msg))

    # shared q-set: the points of a Gamma-centred 2x2x2 mesh without symmetry + generic points
    ph.run_mesh(MESH, is_mesh_symmetry=False, is_gamma_center=True, with_eigenvectors=True, with_group_velocities=True)
    md = ph.get_mesh_dict()
    trans += 1
    qs = np.array(list(md["qpoints"]) + [[0.11, 0.23, -0.31], [0.4, 0.1, 0.27], [0.0, 0.3, 0.3],
                                           # two points close to Gamma on either side of 1e-4 1/A but above phonopy's zone-centre tolerance of
                                           # 1e-5 1/A (2e-4 reduced = 3..7e-5 1/A for these cells): every path must still treat them as q != 0.
                                           # (Points below the tolerance are snapped to Gamma by the single-q paths and evaluated at q by the batched
                                           # one: an O(q^2) = 2e-9 difference that is not an inconsistency.)
                                           [0.0, 2e-3, 0.0], [0.0, 0.0, 2e-4]])
    nmesh = len(md["qpoints"])
    RECP = np.linalg.inv(np.asarray(ph.primitive.cell))  # columns: reciprocal basis vectors (no 2 pi)
    # reference: plain q-point run with everything on, before anything else touched the object
    ph.run_qpoints(qs, with_eigenvectors=True, with_group_velocities=True, with_dynamical_matrices=True)
    ref = {k: np.array(v) for k, v in ph.get_qpoints_dict().items() if v is not None}
    trans += 1
    fscale = max(np.abs(ref["frequencies"]).max(), 1e-6)
    dscale = max(np.abs(ref["dynamical_matrices"]).max(), 1e-12)
    tol_f = 1e-7 * fscale

    def lam(f):
        return np.sign(f) * f * f

    def cmp_freq(f, what, idx=slice(None)):
        e = np.abs(lam(np.sort(f, axis=-1)) - lam(np.sort(ref["frequencies"][idx], axis=-1))).max() / fscale ** 2
        if e > 1e-9:
            return fail("frequencies/" + what, "frequencies from %s differ from run_qpoints (eigenvalue level, rel %.3g)" % (what, e))

    def check_eig(D, f, v, what):
        import phonopy.units as U

        for k in range(len(D)):
            lam_k = np.sign(f[k]) * (f[k] / FACT) ** 2
            r = D[k] @ v[k] - v[k] * lam_k[None, :]
            if np.abs(r).max() > 1e-9 * dscale:
                return fail("eigen-equation/" + what, "reported eigenvectors do not diagonalise the reported dynamical matrix to the reported eigenvalues at q=%s (residual %.3g)" % (qs[k].round(4).tolist(), np.abs(r).max() / dscale))
            if np.abs(v[k].conj().T @ v[k] - np.eye(nb)).max() > 1e-9:
                return fail("eigenvectors-not-orthonormal/" + what, "q=%s" % qs[k].round(4).tolist())

    bad = check_eig(ref["dynamical_matrices"], ref["frequencies"], ref["eigenvectors"], "run_qpoints(all)")
    if bad:
        return bad
    # mesh == qpoints
    bad = cmp_freq(np.array(md["frequencies"]), "run_mesh", slice(0, nmesh))
    if bad:
        return bad
    for k in range(nmesh):
        if not same_gv(ref["frequencies"][k], ref["group_velocities"][k], np.array(md["group_velocities"][k]), tol_f, 1e-6 * max(np.abs(ref["group_velocities"]).max(), 1e-6)):
            return fail("group-velocity/run_mesh", "mesh group velocities differ from run_qpoints at q=%s" % qs[k].round(4).tolist())
        P1 = ref["eigenvectors"][k]
        P2 = np.array(md["eigenvectors"][k])
        for cl in clusters(ref["frequencies"][k], tol_f):
            pa = P1[:, cl] @ P1[:, cl].conj().T
            pb = P2[:, cl] @ P2[:, cl].conj().T
            if np.abs(pa - pb).max() > 1e-7:
                return fail("eigenvector-subspace/run_mesh", "eigen-subspace of bands %s differs at q=%s" % (cl, qs[k].round(4).tolist()))

    # all 2^3 option combinations x q-direction; Gamma is q index 0
    for we, wg, wd in itertools.product((False, True), repeat=3):
        for qdir in (None, [0.3, -0.2, 0.5]):
            ph.run_qpoints(qs, with_eigenvectors=we, with_group_velocities=wg, with_dynamical_matrices=wd, nac_q_direction=qdir)
            d = ph.get_qpoints_dict()
            trans += 1
            what = "run_qpoints(eig=%s,gv=%s,dm=%s,qdir=%s)" % (we, wg, wd, "set" if qdir else None)
            # with NAC a direction changes Gamma itself, and every q closer to Gamma than phonopy's zone-centre tolerance (1e-5 1/A)
            sl = np.array([not (qdir and nac and np.linalg.norm(RECP @ q_) < 1.5e-5) for q_ in qs])
            f = np.array(d["frequencies"])
            e = np.abs(lam(f[sl]) - lam(ref["frequencies"][sl])).max() / fscale ** 2
            if e > 1e-9:
                return fail("option-dependence/frequencies", "%s changes the frequencies by %.3g (rel, eigenvalue level)" % (what, e))
            if wd:
                D = np.array(d["dynamical_matrices"])
                if np.abs(D[sl] - ref["dynamical_matrices"][sl]).max() > 1e-10 * dscale:
                    return fail("option-dependence/dynamical-matrices", "%s: dynamical matrices differ from the all-options run by %.3g" % (what, np.abs(D[sl] - ref["dynamical_matrices"][sl]).max() / dscale))
                if we:
                    bad = check_eig(D, f, np.array(d["eigenvectors"]), what)
                    if bad:
                        return bad
            if wg and not qdir:
                g = np.array(d["group_velocities"])
                for k in range(len(qs)):
                    if not same_gv(ref["frequencies"][k], ref["group_velocities"][k], g[k], tol_f, 1e-6 * max(np.abs(ref["group_velocities"]).max(), 1e-6)):
                        return fail("option-dependence/group-velocities", "%s: group velocities differ at q=%s" % (what, qs[k].round(4).tolist()))
            if (d.get("eigenvectors") is not None) != we or (d.get("group_velocities") is not None) != wg or (d.get("dynamical_matrices") is not None) != wd:
                return fail("option-dependence/presence", "%s: returned keys do not match the request" % what)

    # results already handed out stay what they were: a later call with the same number of q-points must not write into them
    ph.run_qpoints(qs, with_eigenvectors=True, with_group_velocities=True, with_dynamical_matrices=True)
    held = ph.get_qpoints_dict()
    snap = {k: np.array(v, copy=True) for k, v in held.items() if v is not None}
    ph.run_qpoints(qs[::-1] * 0.9 + 0.013, with_eigenvectors=True, with_group_velocities=True, with_dynamical_matrices=True)
    ph.run_mesh(MESH, is_mesh_symmetry=False, is_gamma_center=True, with_group_velocities=True)
    trans += 3
    for k, v in snap.items():
        if not np.array_equal(np.asarray(held[k]), v):
            return fail("handed-out-result-overwritten/" + k, "the %s array returned by get_qpoints_dict() changed when run_qpoints was called again with as many other q-points" % k)
    # Gamma with a direction (NAC): the q-point list, the dynamical-matrix object and a band segment that starts or ends at Gamma
    # along that direction report the same Gamma
    if nac:
        for qdir in ([0.3, -0.2, 0.5], [0.5, 0.0, 0.5], [0.0, 0.0, 1.0], [1.0, 0.0, 0.0], [0.5, 0.5, 0.0]):
            ph.run_qpoints([[0.0, 0.0, 0.0]], with_dynamical_matrices=True, nac_q_direction=qdir)
            d = ph.get_qpoints_dict()
            Dq, fq = np.array(d["dynamical_matrices"][0]), np.array(d["frequencies"][0])
            dmo = ph.dynamical_matrix
            dmo.run([0.0, 0.0, 0.0], q_direction=qdir)
            trans += 2
            if np.abs(np.array(dmo.dynamical_matrix) - Dq).max() > 1e-10 * dscale:
                return fail("gamma-direction/dynamical_matrix.run", "D(Gamma, direction %s): run_qpoints(nac_q_direction) and dynamical_matrix.run(q_direction) differ by %.3g (rel)" % (qdir, np.abs(np.array(dmo.dynamical_matrix) - Dq).max() / dscale))
            qd = np.array(qdir, float)
            for nm, seg, at in (("starting", [np.zeros(3), 0.25 * qd, 0.5 * qd], 0), ("ending", [0.5 * qd, 0.25 * qd, np.zeros(3)], -1)):
                ph.run_band_structure([seg])
                fb = np.array(ph.get_band_structure_dict()["frequencies"][0][at])
                trans += 1
                if np.abs(lam(fb) - lam(fq)).max() / fscale ** 2 > 1e-9:
                    return fail("gamma-direction/band-segment-" + nm, "Gamma on a band segment %s at Gamma along %s differs from run_qpoints(Gamma, nac_q_direction=%s) by %.3g THz" % (nm, qdir, qdir, np.abs(fb - fq).max()))
    # after the direction runs: mesh, band, q-points again must still agree with the reference (no state left behind)
    ph.run_mesh(MESH, is_mesh_symmetry=False, is_gamma_center=True, with_eigenvectors=True, with_group_velocities=True)
    md2 = ph.get_mesh_dict()
    trans += 1
    for k in range(nmesh):
        if not same_gv(ref["frequencies"][k], ref["group_velocities"][k], np.array(md2["group_velocities"][k]), tol_f, 1e-6 * max(np.abs(ref["group_velocities"]).max(), 1e-6)):
            return fail("history/group-velocity/run_mesh-after-q-direction", "mesh group velocities at q=%s changed after a run_qpoints call with nac_q_direction" % qs[k].round(4).tolist())
    # a stored mesh that is only initialised and then walked: everything that was requested is there afterwards
    ph.init_mesh(MESH, is_mesh_symmetry=False, is_gamma_center=True, with_eigenvectors=True, with_group_velocities=True)
    walked = [x for x in ph.mesh]
    md4 = ph.get_mesh_dict()
    trans += 1
    if md4.get("group_velocities") is None or md4.get("eigenvectors") is None:
        return fail("walked-mesh/missing", "init_mesh(with_eigenvectors, with_group_velocities) followed by iteration: get_mesh_dict() lacks %s" % [k for k in ("eigenvectors", "group_velocities") if md4.get(k) is None])
    bad = cmp_freq(np.array([x[0] for x in walked]), "iteration over a stored mesh", slice(0, nmesh))
    if bad:
        return bad
    for k in range(nmesh):
        if not same_gv(ref["frequencies"][k], ref["group_velocities"][k], np.array(md4["group_velocities"][k]), tol_f, 1e-6 * max(np.abs(ref["group_velocities"]).max(), 1e-6)):
            return fail("walked-mesh/group-velocity", "group velocities of a walked stored mesh differ from run_qpoints at q=%s" % qs[k].round(4).tolist())
    # iterated mesh
    try:
        ph.init_mesh(MESH, is_mesh_symmetry=False, is_gamma_center=True, with_eigenvectors=True, use_iter_mesh=True)
        it = list(ph.mesh)
        trans += 1
        fi = np.array([x[0] for x in it])
        bad = cmp_freq(fi, "iter_mesh", slice(0, nmesh))
        if bad:
            return bad
        ph.init_mesh(MESH, is_mesh_symmetry=False, is_gamma_center=True, with_eigenvectors=False, use_iter_mesh=True)
        it2 = [x for x in ph.mesh]
        fi2 = np.array([x[0] for x in it2])
        bad = cmp_freq(fi2, "iter_mesh(no eigenvectors)", slice(0, nmesh))
        if bad:
            return bad
        # a mesh given as a length (phonopy derives the mesh numbers and forces Gamma-centring): stored and iterated meshes
        # sample the same q-points and report the same frequencies, whatever is_gamma_center says
        for gc in (False, True):
            for length in (6.0, 9.5):
                ph.run_mesh(length, is_mesh_symmetry=False, is_gamma_center=gc)
                ms_ = ph.get_mesh_dict()
                ph.init_mesh(length, is_mesh_symmetry=False, is_gamma_center=gc, use_iter_mesh=True, with_eigenvectors=False)
                itq = np.array(ph.mesh.qpoints)
                itf = np.array([x[0] for x in ph.mesh])
                trans += 2
                if itq.shape != np.asarray(ms_["qpoints"]).shape or np.abs(itq - ms_["qpoints"]).max() > 1e-12:
                    return fail("length-mesh/qpoints", "mesh length %g, is_gamma_center=%s: the iterated mesh samples other q-points than the stored mesh" % (length, gc))
                if np.abs(lam(itf) - lam(np.array(ms_["frequencies"]))).max() / fscale ** 2 > 1e-9:
                    return fail("length-mesh/frequencies", "mesh length %g, is_gamma_center=%s: iterated and stored mesh frequencies differ" % (length, gc))
    except Exception as e:
        return fail("iter-mesh-raised", "%s: %s" % (type(e).__name__, str(e)[:150]))
    # the same q-points handed over in every memory layout
    from vtk.alphabet import qsets as QS

    for lname, qa in QS.layouts(qs).items():
        ph.run_qpoints(qa, with_eigenvectors=True, with_dynamical_matrices=True)
        d = ph.get_qpoints_dict()
        trans += 1
        bad = cmp_freq(np.array(d["frequencies"]), "run_qpoints(q array layout: %s)" % lname)
        if bad:
            return bad
        if np.abs(np.array(d["dynamical_matrices"]) - ref["dynamical_matrices"]).max() > 1e-10 * dscale:
            return fail("q-layout/dynamical-matrix", "run_qpoints with the q-points as %s gives other dynamical matrices" % lname)
        if isinstance(qa, np.ndarray):
            k = len(qs) - 2
            fk = np.array(ph.get_frequencies(qa[k]))
            if np.abs(lam(fk) - lam(ref["frequencies"][k])).max() / fscale ** 2 > 1e-9:
                return fail("q-layout/get_frequencies", "get_frequencies(row of a %s array) differs from run_qpoints" % lname)
            dm = ph.dynamical_matrix
            dm.run(qa[k])
            if np.abs(dm.dynamical_matrix - ref["dynamical_matrices"][k]).max() > 1e-10 * dscale:
                return fail("q-layout/dynamical_matrix.run", "dynamical_matrix.run(row of a %s array) differs from run_qpoints" % lname)
            ph.run_band_structure([qa[1:]], with_eigenvectors=False)  # without Gamma (a path gives it a NAC direction)
            bad = cmp_freq(np.array(ph.get_band_structure_dict()["frequencies"][0]), "run_band_structure(q array layout: %s)" % lname, slice(1, None))
            if bad:
                return bad
    # band structure with the q-set as a path, connection off/on
    for conn in (False, True):
        ph.run_band_structure([qs[1:]], with_eigenvectors=True, with_group_velocities=True, is_band_connection=conn)
        bd = ph.get_band_structure_dict()
        trans += 1
        f = np.array(bd["frequencies"][0])
        bad = cmp_freq(f, "run_band_structure(connection=%s)" % conn, slice(1, None))
        if bad:
            return bad
        g = np.array(bd["group_velocities"][0])
        v = np.array(bd["eigenvectors"][0])
        for k in range(len(f)):
            # (frequency, velocity) pairs must be the reference's, whatever the band order
            order = np.argsort(f[k], kind="stable")
            if not same_gv(ref["frequencies"][k + 1], ref["group_velocities"][k + 1], g[k][order], tol_f, 1e-6 * max(np.abs(ref["group_velocities"]).max(), 1e-6)):
                return fail("band-structure/group-velocity-pairing/connection=%s" % conn, "group velocities along the band path are not paired with their frequencies at q=%s" % qs[k + 1].round(4).tolist())
            Dk = ref["dynamical_matrices"][k + 1]
            import phonopy.units as U

            lk = np.sign(f[k]) * (f[k] / FACT) ** 2
            if np.abs(Dk @ v[k] - v[k] * lk[None, :]).max() > 1e-8 * dscale:
                return fail("band-structure/eigenvector-pairing/connection=%s" % conn, "eigenvectors along the band path are not paired with their frequencies at q=%s" % qs[k + 1].round(4).tolist())
    # dynamical-matrix object and single-q getters
    import phonopy.units as U

    for k in (1, 3, len(qs) - 1):
        ph.dynamical_matrix.run(qs[k])
        D = np.array(ph.dynamical_matrix.dynamical_matrix)
        if np.abs(D - ref["dynamical_matrices"][k]).max() > 1e-10 * dscale:
            return fail("path/dynamical_matrix.run", "differs from run_qpoints at q=%s" % qs[k].round(4).tolist())
        if np.abs(np.array(ph.get_dynamical_matrix_at_q(qs[k])) - ref["dynamical_matrices"][k]).max() > 1e-10 * dscale:
            return fail("path/get_dynamical_matrix_at_q", "differs from run_qpoints at q=%s" % qs[k].round(4).tolist())
        f1 = np.array(ph.get_frequencies(qs[k]))
        f2, v2 = ph.get_frequencies_with_eigenvectors(qs[k])
        for nm, ff in (("get_frequencies", f1), ("get_frequencies_with_eigenvectors", np.array(f2))):
            if np.abs(lam(ff) - lam(ref["frequencies"][k])).max() > 1e-9 * fscale ** 2:
                return fail("path/" + nm, "differs from run_qpoints at q=%s" % qs[k].round(4).tolist())
        lk = np.sign(f2) * (np.array(f2) / FACT) ** 2
        if np.abs(ref["dynamical_matrices"][k] @ v2 - v2 * lk[None, :]).max() > 1e-8 * dscale:
            return fail("path/get_frequencies_with_eigenvectors", "eigenvectors do not diagonalise D at q=%s" % qs[k].round(4).tolist())
        trans += 4
    # files
    cwd = os.getcwd()
    with tempfile.TemporaryDirectory(prefix="c14_") as td:
        os.chdir(td)
        try:
            ph.run_qpoints(qs, with_eigenvectors=True, with_group_velocities=True, with_dynamical_matrices=True)
            ph.write_yaml_qpoints_phonon()
            ph.write_hdf5_qpoints_phonon()
            y = yaml.safe_load(open("qpoints.yaml"))
            for k, p in enumerate(y["phonon"]):
                Dy = np.array(p["dynamical_matrix"])
                Dy = Dy[:, 0::2] + 1j * Dy[:, 1::2]
                if np.abs(Dy - ref["dynamical_matrices"][k]).max() > 0.75e-10:  # half a unit of the 10th decimal in the real and in the imaginary part
                    return fail("file/qpoints.yaml/dynamical_matrix", "written matrix differs from memory by %.3g at q #%d" % (np.abs(Dy - ref["dynamical_matrices"][k]).max(), k))
                fy = np.array([b["frequency"] for b in p["band"]])
                if np.abs(fy - ref["frequencies"][k]).max() > 0.6e-10:
                    return fail("file/qpoints.yaml/frequency", "written frequencies differ from memory at q #%d" % k)
                gy = np.array([b["group_velocity"] for b in p["band"]])
                if np.abs(gy - ref["group_velocities"][k]).max() > 0.6e-7:
                    return fail("file/qpoints.yaml/group_velocity", "written group velocities differ from memory at q #%d" % k)
                vy = np.array([[[c_[0] + 1j * c_[1] for c_ in atom] for atom in b["eigenvector"]] for b in p["band"]]).reshape(nb, nb).T
                if np.abs(vy - ref["eigenvectors"][k]).max() > 0.8e-14:
                    return fail("file/qpoints.yaml/eigenvector", "written eigenvectors differ from memory at q #%d" % k)
            with h5py.File("qpoints.hdf5") as h:
                for key, rk in (("frequency", "frequencies"), ("eigenvector", "eigenvectors"), ("group_velocity", "group_velocities"), ("dynamical_matrix", "dynamical_matrices")):
                    if not np.array_equal(h[key][:], ref[rk]):
                        return fail("file/qpoints.hdf5/" + key, "hdf5 dataset differs from memory")
            ph.run_mesh(MESH, is_mesh_symmetry=False, is_gamma_center=True, with_eigenvectors=True, with_group_velocities=True)
            md3 = ph.get_mesh_dict()
            ph.write_yaml_mesh()
            ph.write_hdf5_mesh()
            y = yaml.safe_load(open("mesh.yaml"))
            for k, p in enumerate(y["phonon"]):
                fy = np.array([b["frequency"] for b in p["band"]])
                if np.abs(fy - md3["frequencies"][k]).max() > 0.6e-10 or p["weight"] != md3["weights"][k]:
                    return fail("file/mesh.yaml/frequency", "written mesh differs from memory at q #%d" % k)
                gy = np.array([b["group_velocity"] for b in p["band"]])
                if np.abs(gy - md3["group_velocities"][k]).max() > 0.6e-7:
                    return fail("file/mesh.yaml/group_velocity", "written mesh group velocities differ at q #%d" % k)
            with h5py.File("mesh.hdf5") as h:
                if not np.array_equal(h["frequency"][:], md3["frequencies"]) or not np.array_equal(h["eigenvector"][:], md3["eigenvectors"]):
                    return fail("file/mesh.hdf5", "hdf5 mesh differs from memory")
            nh = (len(qs) - 1) // 2  # two segments of equal length (write_hdf5 stores the paths as one rectangular array)
            ph.run_band_structure([qs[1:1 + nh], qs[len(qs) - nh:]], with_eigenvectors=True, with_group_velocities=True, is_band_connection=True)
            bd = ph.get_band_structure_dict()
            ph.write_yaml_band_structure(filename="band.yaml")
            ph.write_hdf5_band_structure(filename="band.hdf5")
            y = yaml.safe_load(open("band.yaml"))
            fy = np.array([[b["frequency"] for b in p["band"]] for p in y["phonon"]])
            fm = np.concatenate(bd["frequencies"])
            if fy.shape != fm.shape or np.abs(fy - fm).max() > 0.6e-10:
                return fail("file/band.yaml/frequency", "written band frequencies differ from memory")
            gy = np.array([[b["group_velocity"] for b in p["band"]] for p in y["phonon"]])
            if np.abs(gy - np.concatenate(bd["group_velocities"])).max() > 0.6e-7:
                return fail("file/band.yaml/group_velocity", "written band group velocities differ from memory")
            with h5py.File("band.hdf5") as h:
                if not np.array_equal(np.concatenate(h["frequency"][:]), fm):
                    return fail("file/band.hdf5", "hdf5 band frequencies differ from memory")
            trans += 6
        except KeyError as e:
            return fail("file/missing-key", "key %s missing in a written file" % e)
        finally:
            os.chdir(cwd)
    # "for a given Phonopy state": the state reached through the setters (after every path above has been used and has left its
    # helper objects behind) answers like a fresh object put into that state
    fc_b = 1.21 * np.array(ph.force_constants)
    nac_b = None
    if nac:
        nac_b = dict(ph.nac_params)
        nac_b["born"] = 0.8 * np.array(nac_b["born"])
    ph.force_constants = fc_b.copy()
    if nac_b:
        ph.nac_params = dict(nac_b)
    fresh = phx.make_phonopy(c, S, None, **({"factor": case["factor"]} if case.get("factor") else {}))
    fresh.force_constants = fc_b.copy()
    if nac_b:
        fresh.nac_params = dict(nac_b)
    fresh.run_qpoints(qs, with_group_velocities=True)
    want = {k: np.array(v) for k, v in fresh.get_qpoints_dict().items() if v is not None}
    gsc = 1e-6 * max(np.abs(want["group_velocities"]).max(), 1e-6)
    for path in ("run_qpoints", "run_mesh", "run_band_structure"):
        if path == "run_qpoints":
            ph.run_qpoints(qs, with_group_velocities=True)
            d = ph.get_qpoints_dict()
            fgot, ggot, idx = np.array(d["frequencies"]), np.array(d["group_velocities"]), range(len(qs))
        elif path == "run_mesh":
            ph.run_mesh(MESH, is_mesh_symmetry=False, is_gamma_center=True, with_group_velocities=True)
            d = ph.get_mesh_dict()
            fgot, ggot, idx = np.array(d["frequencies"]), np.array(d["group_velocities"]), range(nmesh)
        else:
            if nac:
                continue  # a path through Gamma carries a direction: not the same question
            ph.run_band_structure([qs], with_group_velocities=True)
            d = ph.get_band_structure_dict()
            fgot, ggot, idx = np.array(d["frequencies"][0]), np.array(d["group_velocities"][0]), range(len(qs))
        trans += 1
        for k in idx:
            if np.abs(fgot[k] - want["frequencies"][k]).max() > tol_f:
                return fail("state/" + path, "after force_constants%s were replaced, frequencies at q=%s differ from a fresh object in the same state" % (" and nac_params" if nac else "", qs[k].round(4).tolist()))
            if not same_gv(want["frequencies"][k], want["group_velocities"][k], ggot[k], tol_f, gsc):
                return fail("state-group-velocity/" + path, "after force_constants%s were replaced, group velocities at q=%s differ from a fresh object in the same state" % (" and nac_params" if nac else "", qs[k].round(4).tolist()))
    complexD = bool(np.abs(ref["dynamical_matrices"].imag).max() > 1e-6 * dscale)
    return dict(ok=True, nontrivial=bool(complexD or nac), transitions=trans, outcome="ok:%s" % tag)
