#!/venv/bin/python
"""Print a markdown table of the seeded changes and which checks detect them (from seeded/*/meta.json)."""
import glob, json, os, re
rows = []
for d in sorted(glob.glob("/verif/seeded/*")):
    m = json.load(open(d + "/meta.json")) if os.path.exists(d + "/meta.json") else {}
    name = os.path.basename(d)
    notes = open(d + "/notes.md").read() if os.path.exists(d + "/notes.md") else ""
    first = next((l.strip("# ").strip() for l in notes.splitlines() if l.strip()), "")
    files = ", ".join(sorted({l.split("|")[0].strip() for l in m.get("confirmation", {}).get("files", [])[:-1]}))
    det = m.get("detection", {})
    dets = "; ".join("%s: %s" % (k, ("**detected** `%s`" % re.search(r"sig=(\S+)", v["first"]).group(1)) if v.get("violations") else "missed") for k, v in sorted(det.items()))
    rows.append("| %s | %s | %s | %s |" % (name, files, first[:110].replace("|", "/"), dets))
print("| change | files | what | checks run against it |\n|---|---|---|---|")
print("\n".join(rows))
