"""./vt setup — offline: private deps (scipy, jsonschema) into /verif/build/deps, build extension variants."""
from __future__ import annotations

import os
import subprocess
import sys

VERIF = os.path.dirname(os.path.dirname(os.path.abspath(__file__)))
DEPS = os.path.join(VERIF, "build", "deps")
WHEELS = "/opt/veriftools/wheels"


def ensure_deps():
    import fcntl

    os.makedirs(DEPS, exist_ok=True)
    lock = open(os.path.join(os.path.dirname(DEPS), "deps.lock"), "w")
    fcntl.flock(lock, fcntl.LOCK_EX)  # several checks may start at once on a fresh clone
    try:
        return _ensure_deps()
    finally:
        fcntl.flock(lock, fcntl.LOCK_UN)
        lock.close()


def _ensure_deps():
    need = []
    if not os.path.isdir(os.path.join(DEPS, "scipy")):
        need.append(("scipy", ["--no-deps"]))
    if not os.path.isdir(os.path.join(DEPS, "jsonschema")):
        need.append(("jsonschema", []))
    for pkg, extra in need:
        r = subprocess.run([sys.executable, "-m", "pip", "install", "--quiet", "--no-index", "--find-links", WHEELS,
                            "--target", DEPS, "--upgrade", *extra, pkg], capture_output=True, text=True)
        if r.returncode != 0:
            sys.stderr.write("setup: could not install %s: %s\n" % (pkg, r.stderr[-2000:]))
            return False
    return True


def main():
    ok = ensure_deps()
    from vtk import build

    for v in ("omp", "serial", "san", "vt"):
        try:
            print("built", v, build.ensure(v))
        except SystemExit:
            print("build of variant %s failed" % v)
            ok = False
    return 0 if ok else 2
