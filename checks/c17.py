"""C17 — calculator interfaces preserve the crystal and the physical units.

(1) Units, exhaustive over the calculator table: frequency factor, NAC factor, length and force conversions and the
force-constant conversion table are recomputed from the documented unit NAMES with independent CODATA constants;
(2) physical equivalence: one polar crystal expressed in every calculator's units gives the same THz frequencies
(incl. LO-TO splitting) through phonopy.load defaults; (3) structure files: write -> read with the same interface for
unit cells, supercells and displaced supercells of interleaved / triclinic / out-of-cell inputs; (4) FORCE_SETS
pairing: create_FORCE_SETS accepts consistent outputs and refuses outputs belonging to another displacement; force outputs of 14 calculators written by the harness in their own layout are parsed atom by atom (all line orders where lines carry ids); LAMMPS end to end incl. the frame rotation.
"""
from __future__ import annotations

import io
import contextlib
import itertools
import os
import tempfile

import numpy as np

from vtk import phx

ID = "C17"
VARIANT = "omp"
TECHNIQUE = "exhaustive enumeration of the calculator table (units) and product walk over (interface, cell, structure kind) on the real writers/readers; unit oracle derived from unit names with CODATA constants; atom-bijection oracle for structures"
RULE = ("case = (calculator, unit relation) / (calculator, cell, structure kind) / (pairing scenario); non-trivial = species interleaved or lattice "
        "triclinic or positions outside [0,1) (structures), non-eV/Angstrom unit system (units)")
ASSUMPTIONS = ["CODATA-2018 constants; agreement with phonopy's (older) constants is asked to 2e-6 relative",
               "formats that are only a structure PART of an input get the minimal header the phonopy documentation prescribes (adapter table in this file)"]
BUDGET = {"quick": 600, "thorough": 3000}

CALCS = [None, "vasp", "abinit", "qe", "wien2k", "elk", "siesta", "cp2k", "crystal", "dftbp", "turbomole", "aims", "castep", "fleur", "abacus", "lammps", "pwmat"]
# CODATA 2018
EV = 1.602176634e-19
AMU = 1.66053906660e-27
BOHR = 0.529177210903
HARTREE = 27.211386245988
RYD = HARTREE / 2
E2 = 14.3996454784255  # e^2/(4 pi eps0) in eV Angstrom
ENERGY = {"eV": 1.0, "Ry": RYD, "mRy": RYD / 1000, "hartree": HARTREE}
LENGTH = {"angstrom": 1.0, "au": BOHR}


def parse_unit(u):
    """'Ry/au^2' | 'eV/angstrom.au' | 'hartree/au' -> value in eV/Angstrom^n"""
    num, den = u.split("/")
    val = ENERGY[num]
    for part in den.split("."):
        if part.endswith("^2"):
            val /= LENGTH[part[:-2]] ** 2
        else:
            val /= LENGTH[part]
    return val


CONVERT_IF = ["vasp", "abinit", "aims", "castep", "dftbp", "pwmat"]
STRUCT_IF = ["vasp", "abinit", "qe", "wien2k", "elk", "siesta", "crystal", "dftbp", "turbomole", "aims", "castep", "fleur", "abacus", "lammps", "pwmat"]
CELLS = ["cubic-1", "NaCl-grouped", "interleaved-tri", "outside", "NaClNaO-tri", "twelve"]


def plan(tier, seed):
    groups = []
    groups.append([{"kind": "units", "calc": c} for c in CALCS])
    groups.append([{"kind": "fcconv", "unit": u, "calc": c} for c in CALCS for u in ("eV/angstrom^2", "eV/angstrom.au", "Ry/au^2", "mRy/au^2", "hartree/au^2", "hartree/angstrom.au")])
    groups.append([{"kind": "equiv", "calc": c, "nac": n} for c in CALCS for n in (False, True)])
    for itf in STRUCT_IF:
        groups.append([{"kind": "struct", "calc": itf, "cell": cn, "what": w} for cn in CELLS for w in ("unitcell", "supercell", "displaced")])
    groups.append([{"kind": "pairing", "scenario": s, "cell": cn} for cn in ("NaCl-grouped", "NaClNaO-tri", "interleaved-tri")
                   for s in ("consistent", "swapped-first-two", "swapped-later", "duplicate", "wrong-cell", "last-step-moved", "two-steps-same-geometry")])
    import itertools

    groups.append([{"kind": "convert", "calc": a_, "to": b_, "cell": cn} for a_ in CONVERT_IF for b_ in CONVERT_IF for cn in ("NaCl-grouped", "interleaved-tri")])
    groups.append([{"kind": "scworkflow", "calc": "fleur", "cell": cn, "S": S_} for cn in ("NaCl-grouped", "interleaved-tri", "NaClNaO-tri")
                   for S_ in ([[2, 0, 0], [0, 1, 0], [0, 0, 1]], [[2, 1, 0], [1, 2, 0], [0, 0, 1]], [[1, 1, 0], [-1, 1, 0], [0, 0, 1]], [[1, 0, 1], [0, 2, 0], [-1, 0, 1]], [[0, 1, 1], [1, 0, 1], [1, 1, 0]])])
    # magnetic cells: every arrangement of two species over up to 6 sites (up to 5 in the quick tier), collinear and non-collinear moments
    mg = []
    for n in range(2, 6 if tier == "quick" else 7):
        for pat in itertools.product(("Fe", "O"), repeat=n):
            if pat[0] != "Fe" or len(set(pat)) < 2:
                continue
            for calc in ("vasp", "qe"):
                for dim in (1, 3):
                    mg.append({"kind": "magmom", "calc": calc, "symbols": list(pat), "dim": dim})
    for pat in (["Fe", "O", "Ni", "O", "Fe", "Ni"], ["Ni", "Fe", "O", "Fe", "Ni", "O"], ["O", "Ni", "Fe", "Fe", "O", "Ni", "Fe"]):
        for calc in ("vasp", "qe"):
            for dim in (1, 3):
                mg.append({"kind": "magmom", "calc": calc, "symbols": pat, "dim": dim})
    groups += [mg[k:k + 40] for k in range(0, len(mg), 40)]
    from vtk import forcefiles as FF

    ff = []
    for calc in FF.WRITERS:
        for n in (1, 2, 4, 7, 12):
            for nb in ((1, 3) if calc in FF.HISTORY else (1,)):
                for mag in (0.05, 40.0):
                    ff.append({"kind": "forcefile", "calc": calc, "n": n, "blocks": nb, "mag": mag, "order": None, "short": False})
        if calc in FF.ANY_ORDER:
            for perm in itertools.permutations(range(4)):
                ff.append({"kind": "forcefile", "calc": calc, "n": 4, "blocks": 1, "mag": 0.05, "order": list(perm), "short": False})
            for n in (7, 12):
                for perm in (list(range(n))[::-1], list(range(1, n)) + [0], [n - 1] + list(range(n - 1))):
                    ff.append({"kind": "forcefile", "calc": calc, "n": n, "blocks": 1, "mag": 0.05, "order": perm, "short": False})
    groups += [ff[k:k + 40] for k in range(0, len(ff), 40)]
    groups.append([{"kind": "pairing-lammps", "cell": cn, "S": S_, "order": od} for cn in ("NaCl-grouped", "NaClNaO-tri", "hex-2")
                   for S_ in ([[2, 0, 0], [0, 1, 0], [0, 0, 1]], [[1, 1, 0], [-1, 1, 0], [0, 0, 1]], [[2, 1, 0], [-1, 1, 0], [0, 0, 1]], [[1, 0, 1], [0, 1, 0], [-1, 0, 1]])
                   for od in ("sorted", "reversed", "shuffled")])
    meta = {"alphabet": {"calculators": [str(c) for c in CALCS], "structure_interfaces": STRUCT_IF, "force_file_interfaces": sorted(FF.WRITERS),
                         "force_file_axes": "atoms {1,2,4,7,12} x relaxation history {1,3 blocks} x magnitude x (line order: all 24 permutations of 4 ids and 6 larger ones where lines carry the atom id)", "cells": CELLS, "structure_kinds": 3, "pairing_scenarios": 5},
            "bound": "complete product", "exhaustive": True,
            "not_covered": ["cp2k structure files (cp2k-input-tools is not installed)", "interfaces whose written file cannot be read back by the same interface without calculator-specific context are reported as skipped with the reason"]}
    return groups, meta


def run_units(case):
    from phonopy.interface.calculator import get_default_physical_units

    c = case["calc"]
    u = get_default_physical_units(c)
    fcu, lu, fu = u["force_constants_unit"], u["length_unit"], u["force_unit"]
    nontriv = fcu != "eV/angstrom^2"

    def fail(kind, msg):
        return dict(ok=False, sig="C17/units/%s/%s" % (kind, c), nontrivial=nontriv, msg="%s: %s" % (c, msg))

    try:
        fc_ev = parse_unit(fcu)
        L = LENGTH[lu]
        f_ev = parse_unit(fu)
    except Exception as e:
        return fail("unit-names", "cannot interpret unit names %s %s %s" % (fcu, lu, fu))
    want = np.sqrt(fc_ev * EV / 1e-20 / AMU) / (2 * np.pi) / 1e12
    if abs(u["factor"] / want - 1) > 2e-6:
        return fail("frequency-factor", "factor %r, sqrt(%s / amu)/2pi = %r THz" % (u["factor"], fcu, want))
    if abs(u["distance_to_A"] / L - 1) > 2e-6:
        return fail("distance", "distance_to_A %r for length unit %s" % (u["distance_to_A"], lu))
    if u["nac_factor"] is not None:
        wantn = E2 / (fc_ev * L ** 3)
        if abs(u["nac_factor"] / wantn - 1) > 2e-6:
            return fail("nac-factor", "nac_factor %r, e^2/(4 pi eps0) in %s x %s^3 = %r" % (u["nac_factor"], fcu, lu, wantn))
    f2 = u["force_to_eVperA"]
    if f2 is not None and abs(f2 / f_ev - 1) > 2e-6:
        return fail("force", "force_to_eVperA %r for force unit %s (= %r eV/A)" % (f2, fu, f_ev))
    if f2 is None and abs(f_ev - 1) > 1e-12:
        # no conversion given although the force unit is not eV/Angstrom: forces and displacements must then be consistent
        # with the force-constant unit:  fc_unit == force_unit / length_unit
        if abs(fc_ev / (f_ev / L) - 1) > 1e-9:
            return fail("force", "force unit %s / length unit %s is not the force-constant unit %s and no force conversion is defined" % (fu, lu, fcu))
    if abs(fc_ev / (f_ev / L) - 1) > 1e-9:
        return fail("fc-unit-vs-force-and-length", "force unit %s / length unit %s != force-constant unit %s" % (fu, lu, fcu))
    return dict(ok=True, nontrivial=nontriv, transitions=1, outcome="ok:units")


def run_fcconv(case):
    from phonopy.interface.calculator import get_default_physical_units, get_force_constant_conversion_factor

    c, unit = case["calc"], case["unit"]
    d = get_default_physical_units(c)["force_constants_unit"]
    try:
        got = get_force_constant_conversion_factor(unit, c)
    except NotImplementedError:
        return dict(ok=True, skipped="conversion not implemented for this unit")
    want = parse_unit(unit) / parse_unit(d)
    if abs(got / want - 1) > 2e-6:
        return dict(ok=False, sig="C17/fc-conversion/%s" % c, nontrivial=True, msg="%s: %s -> %s factor %r, expected %r" % (c, unit, d, got, want))
    return dict(ok=True, nontrivial=unit != d, transitions=1, outcome="ok:fcconv")


def run_equiv(case, seed):
    """The same physical crystal in each calculator's unit system -> same THz frequencies through load() defaults."""
    import phonopy
    from phonopy import Phonopy
    from phonopy.interface.calculator import get_default_physical_units
    from phonopy.structure.atoms import PhonopyAtoms
    from vtk.ref import springs as SP

    c = case["calc"]
    if c == "cp2k" and case["nac"]:
        return dict(ok=True, skipped="cp2k has no NAC factor")
    u = get_default_physical_units(c)
    L = LENGTH[u["length_unit"]]
    fc_ev = parse_unit(u["force_constants_unit"])
    a = 5.6
    lat = np.array([[0, a / 2, a / 2], [a / 2, 0, a / 2], [a / 2, a / 2, 0]])
    S = np.diag([2, 2, 2])
    # reference in eV / Angstrom
    ref = Phonopy(PhonopyAtoms(symbols=["Na", "Cl"], cell=lat, scaled_positions=[[0, 0, 0], [.5, .5, .5]]), supercell_matrix=S)
    fc = SP.folded_fc(np.asarray(ref.supercell.cell), ref.supercell.positions, ref.supercell.symbols, SP.SpringModel(rc=4.1, seed=seed))
    ref.force_constants = fc
    born = np.array([np.eye(3) * 1.1, np.eye(3) * -1.1])
    eps = np.eye(3) * 2.4
    if case["nac"]:
        ref.nac_params = {"born": born, "dielectric": eps, "factor": E2}
    qs = [[0.1, 0.2, 0.3], [0.5, 0, 0], [0.0, 0.0, 0.001], [0.02, 0, 0]]
    ref.run_qpoints(qs)
    fref = ref.get_qpoints_dict()["frequencies"]
    ref.run_mesh([4, 4, 4])
    ref.run_thermal_properties(t_min=0, t_max=600, t_step=300, cutoff_frequency=1e-3)
    tpref = ref.get_thermal_properties_dict()
    # the same crystal in calculator units, written to a phonopy yaml and loaded with defaults
    ph = Phonopy(PhonopyAtoms(symbols=["Na", "Cl"], cell=lat / L, scaled_positions=[[0, 0, 0], [.5, .5, .5]]), supercell_matrix=S, calculator=c)
    ph.force_constants = fc / fc_ev
    with tempfile.TemporaryDirectory(prefix="c17_") as td:
        fn = os.path.join(td, "phonopy_params.yaml")
        ph.save(fn, settings={"force_constants": True})
        cwd = os.getcwd()
        os.chdir(td)
        try:
            # Born charges / dielectric tensor are dimensionless: handed over without a factor, load() must supply the
            # calculator's default NAC factor
            ph2 = phx.quiet(phonopy.load, fn, produce_fc=False, log_level=0, nac_params=({"born": born.copy(), "dielectric": eps.copy()} if case["nac"] else None))
        finally:
            os.chdir(cwd)
    if (ph2.calculator or None) != (c or None):
        return dict(ok=False, sig="C17/equivalence/calculator-lost/%s" % c, msg="calculator %r reloaded as %r" % (c, ph2.calculator))
    ph2.run_qpoints(qs)
    f2 = ph2.get_qpoints_dict()["frequencies"]
    e = np.abs(f2 - fref).max() / np.abs(fref).max()
    if e > 1e-5:
        return dict(ok=False, sig="C17/equivalence/frequencies/%s/%s" % (c, "nac" if case["nac"] else "no-nac"), resid=float(e), nontrivial=True,
                    msg="%s: the same crystal expressed in %s units gives frequencies %s THz instead of %s THz through load() defaults" % (c, u["force_constants_unit"], f2[0].round(4).tolist(), fref[0].round(4).tolist()))
    ph2.run_mesh([4, 4, 4])
    ph2.run_thermal_properties(t_min=0, t_max=600, t_step=300, cutoff_frequency=1e-3)
    tp2 = ph2.get_thermal_properties_dict()
    for k in ("free_energy", "entropy", "heat_capacity"):
        if np.abs(tp2[k] - tpref[k]).max() > 1e-4 * max(np.abs(tpref[k]).max(), 1e-9):
            return dict(ok=False, sig="C17/equivalence/thermal/%s" % c, nontrivial=True, msg="%s: %s differs between unit systems" % (c, k))
    return dict(ok=True, nontrivial=c not in (None, "vasp"), transitions=3, outcome="ok:equiv")


def make_cell(name):
    from phonopy.structure.atoms import PhonopyAtoms

    if name == "cubic-1":
        return PhonopyAtoms(symbols=["Si"], cell=np.eye(3) * 3.1, scaled_positions=[[0, 0, 0]])
    if name == "NaCl-grouped":
        a = 5.6
        return PhonopyAtoms(symbols=["Na", "Na", "Cl", "Cl"], cell=[[a, 0, 0], [0, a, 0], [0, 0, a / 2]],
                            scaled_positions=[[0, 0, 0], [.5, .5, 0], [.5, 0, .5], [0, .5, .5]])
    tri = [[5.2, 0, 0], [0.7, 5.8, 0], [1.1, -0.8, 6.3]]
    if name == "interleaved-tri":
        return PhonopyAtoms(symbols=["Na", "Cl", "Na", "Cl"], cell=tri, scaled_positions=[[.03, .01, .02], [.43, .57, .61], [.52, .11, .47], [.81, .29, .93]])
    if name == "outside":
        return PhonopyAtoms(symbols=["Na", "Cl", "Cl"], cell=tri, scaled_positions=[[1.03, -.21, .02], [.43, 2.57, -.39], [-.52, .11, 1.47]])
    if name == "twelve":
        g = np.random.default_rng(4)
        return PhonopyAtoms(symbols=["Na"] * 6 + ["Cl"] * 6, cell=tri, scaled_positions=g.uniform(0, 1, (12, 3)).round(6))
    if name == "hex-2":
        a, c_ = 2.95, 4.68
        return PhonopyAtoms(symbols=["Ti", "Ti"], cell=[[a, 0, 0], [-a / 2, a * np.sqrt(3) / 2, 0], [0, 0, c_]], scaled_positions=[[1 / 3, 2 / 3, .25], [2 / 3, 1 / 3, .75]])
    if name == "NaClNaO-tri":
        return PhonopyAtoms(symbols=["Na", "Cl", "Na", "O"], cell=tri, scaled_positions=[[.03, .01, .02], [.43, .57, .61], [.52, .11, .47], [.81, .29, .33]])
    raise ValueError(name)


def stable_grouping(symbols):
    order = []
    for s in symbols:
        if s not in order:
            order.append(s)
    return [i for s in order for i, t in enumerate(symbols) if t == s]


def same_crystal(a, b, dist_to_A, tol):
    """None if cell b (read back, in calculator length units) describes crystal a (Angstrom); else message.
    Lattice up to a rigid rotation (Gram matrix + handedness); atoms: identity order or stable grouping by species."""
    La = np.asarray(a.cell)
    Lb = np.asarray(b.cell) * dist_to_A
    if len(a) != len(b):
        return "number of atoms %d -> %d" % (len(a), len(b))
    if np.abs(La @ La.T - Lb @ Lb.T).max() > tol * np.abs(La @ La.T).max():
        return "lattice metric changed (max dev %.3g)" % np.abs(La @ La.T - Lb @ Lb.T).max()
    if np.sign(np.linalg.det(La)) != np.sign(np.linalg.det(Lb)):
        return "handedness changed"
    for nm, perm in (("identity", list(range(len(a)))), ("stable-grouping", stable_grouping(a.symbols))):
        if [a.symbols[i] for i in perm] == list(b.symbols):
            d = a.scaled_positions[perm] - b.scaled_positions
            d -= np.rint(d)
            if np.abs(d).max() < tol:
                return None
    # describe what happened
    for i in range(len(b)):
        d = a.scaled_positions - b.scaled_positions[i]
        d -= np.rint(d)
        j = int(np.abs(d).max(axis=1).argmin())
        if np.abs(d[j]).max() < tol and a.symbols[j] != b.symbols[i]:
            return "atom at %s is %s in the file read back but %s in the original (species/position pairing broken)" % (b.scaled_positions[i].round(4).tolist(), b.symbols[i], a.symbols[j])
    return "atoms are not the original ones in input order or stable species grouping (symbols %s -> %s)" % (a.symbols, b.symbols)


HEAD_QE = "&control\n calculation='scf'\n/\n&system\n ibrav = 0\n nat = %d\n ntyp = %d\n/\n"


def roundtrip(itf, cell, td, tag):
    """write `cell` with the interface, read it back.  Returns (cell_read | None, skip_reason | None)."""
    from phonopy.interface import calculator as CALC

    fn = os.path.join(td, tag)
    syms = []
    for s in cell.symbols:
        if s not in syms:
            syms.append(s)
    info = None
    if itf == "qe":
        pp = {s: s + ".UPF" for s in syms}
        info = (fn, pp)
    elif itf == "elk":
        info = (fn, [s + ".in" for s in syms])
    elif itf == "siesta":
        from phonopy.structure.atoms import symbol_map

        info = (fn, {s: i + 1 for i, s in enumerate(syms)})
    elif itf == "abacus":
        info = (fn, {s: s + ".upf" for s in syms}, {s: s + ".orb" for s in syms}, None)
    elif itf == "wien2k":
        n = len(cell)
        info = (fn, [781] * n, [0.0001] * n, [2.0] * n)
    elif itf == "crystal":
        from phonopy.structure.atoms import symbol_map

        info = (fn, [symbol_map[s] for s in cell.symbols])
    elif itf == "fleur":
        from phonopy.structure.atoms import symbol_map

        # one species id per input atom (Fleur's "Z.label" form), title line first in the rest lines, as read_fleur returns
        info = (["%d.%d" % (symbol_map[s], 1) for s in cell.symbols], ["verif fleur", "", "&end /"])
    buf = io.StringIO()
    with contextlib.redirect_stdout(buf):
        CALC.write_crystal_structure(fn, cell, interface_mode=itf, optional_structure_info=info)
    if itf == "qe":
        body = open(fn).read()
        with open(fn, "w") as w:
            w.write(HEAD_QE % (len(cell), len(syms)) + body)
    if itf == "siesta":
        # the written file is the structure part of an fdf input; the species table belongs to the user's part
        from phonopy.structure.atoms import symbol_map

        body = open(fn).read()
        head = "NumberOfSpecies %d\n%%block ChemicalSpeciesLabel\n" % len(syms) + "".join(" %d %d %s\n" % (i + 1, symbol_map[s_], s_) for i, s_ in enumerate(syms)) + "%endblock ChemicalSpeciesLabel\n"
        with open(fn, "w") as w:
            w.write(head + body)
    if itf == "crystal":
        # phonopy writes CRYSTAL input (.d12/.ext) but reads CRYSTAL output: independent minimal reader of the .ext geometry
        from phonopy.structure.atoms import PhonopyAtoms

        L = [l.split() for l in open(fn + ".ext").read().splitlines()]
        lat = np.array(L[1:4], float)
        nsym = int(L[4][0])
        k = 5 + 4 * nsym
        n = int(L[k][0])
        nums = [int(x[0]) % 100 for x in L[k + 1:k + 1 + n]]
        cart = np.array([x[1:4] for x in L[k + 1:k + 1 + n]], float)
        return PhonopyAtoms(numbers=nums, cell=lat, positions=cart), None
    if itf == "turbomole":
        os.chdir(fn)  # the reader opens the coord file named in control relative to the working directory
        fn = "control"
    if itf == "fleur":
        # The written file is an inpgen input without the '! a1' / '! num atoms' markers that read_fleur keys on, so the
        # writer is judged with an independent reader of that layout ...
        from phonopy.structure.atoms import PhonopyAtoms

        L = open(fn).read().splitlines()
        lat = np.array([l.split()[:3] for l in L[1:4]], float) * float(L[4].split()[0]) * np.array(L[5].split()[:3], float)[None, :]
        n = int(L[7].split()[0])
        rows = [l.split() for l in L[8:8 + n]]
        wcell = PhonopyAtoms(numbers=[int(float(r[0])) for r in rows], cell=lat, scaled_positions=np.array([r[1:4] for r in rows], float))
        # ... and the reader with the same crystal written by the harness in the documented inpgen layout (markers included)
        txt = "verif fleur\n\n" + "".join("%.12f %.12f %.12f ! a%d\n" % (tuple(v) + (i + 1,)) for i, v in enumerate(np.asarray(cell.cell)))
        txt += "1.0 ! aa\n1.0 1.0 1.0 ! scale\n\n%d ! num atoms\n" % len(cell)
        from phonopy.structure.atoms import symbol_map as _sm

        txt += "".join("%d.1 %.12f %.12f %.12f\n" % ((_sm[s_],) + tuple(p_)) for s_, p_ in zip(cell.symbols, cell.scaled_positions)) + "\n&end /\n"
        with open(fn + ".inpgen", "w") as w:
            w.write(txt)
        with contextlib.redirect_stdout(buf):
            rcell, _ = CALC.read_crystal_structure(fn + ".inpgen", interface_mode="fleur")
        return (wcell, rcell), None
    try:
        with contextlib.redirect_stdout(buf):
            got, _ = CALC.read_crystal_structure(fn, interface_mode=itf)
    except SystemExit:
        return None, "%s reader calls sys.exit on the written fragment" % itf
    if itf == "abinit":
        # the reader also has to understand what users write: the same crystal through acell x scalecart x rprim (ABINIT:
        # rprimd(i,j) = scalecart(i) * rprim(i,j) * acell(j), i = Cartesian component, j = vector) with Cartesian positions
        from phonopy.structure.atoms import symbol_map as _sm

        L = np.asarray(cell.cell)
        acell = np.array([2.0, 1.0, 1.5])
        sc = np.array([1.0, 1.3, 0.7])
        rprim = L / acell[:, None] / sc[None, :]
        zs = [_sm[s_] for s_ in syms]
        txt = "natom %d\nntypat %d\nznucl %s\ntypat %s\n" % (len(cell), len(syms), " ".join(map(str, zs)), " ".join(str(syms.index(s_) + 1) for s_ in cell.symbols))
        txt += "acell %s\nscalecart %s\nrprim\n" % (" ".join("%.15f" % x for x in acell), " ".join("%.15f" % x for x in sc))
        txt += "".join("  %.15f %.15f %.15f\n" % tuple(v) for v in rprim)
        txt += "xcart\n" + "".join("  %.15f %.15f %.15f\n" % tuple(v) for v in np.asarray(cell.positions))
        with open(fn + ".user", "w") as w:
            w.write(txt)
        with contextlib.redirect_stdout(buf):
            rcell, _ = CALC.read_crystal_structure(fn + ".user", interface_mode="abinit")
        return (got, rcell), None
    return got, None


def run_struct(case, seed):
    from phonopy import Phonopy
    from phonopy.interface.calculator import get_default_physical_units

    itf = case["calc"]
    cell = make_cell(case["cell"])
    if case["what"] != "unitcell":
        ph = phx.quiet(Phonopy, cell, supercell_matrix=[[2, 0, 0], [0, 1, 0], [0, 0, 1]])
        if case["what"] == "supercell":
            cell = ph.supercell
        else:
            phx.quiet(ph.generate_displacements, distance=0.05)
            cell = ph.supercells_with_displacements[min(1, len(ph.supercells_with_displacements) - 1)]
    dist = get_default_physical_units(itf)["distance_to_A"]
    # phonopy's cells are in the calculator's length unit: give the cell in that unit
    from phonopy.structure.atoms import PhonopyAtoms

    cell_u = PhonopyAtoms(symbols=cell.symbols, cell=np.asarray(cell.cell) / dist, scaled_positions=cell.scaled_positions)
    nontriv = case["cell"] not in ("cubic-1", "NaCl-grouped")
    tag = "%s/%s" % (itf, case["what"])
    with tempfile.TemporaryDirectory(prefix="c17s_") as td:
        cwd = os.getcwd()
        os.chdir(td)
        try:
            got, skip = roundtrip(itf, cell_u, td, "structure_" + itf)
        except Exception as e:
            import traceback

            os.chdir(cwd)
            return dict(ok=True, skipped="%s: adapter cannot round-trip (%s)" % (itf, type(e).__name__))
        finally:
            os.chdir(cwd)
    if skip:
        return dict(ok=True, skipped=skip)
    if got is None:
        return dict(ok=True, skipped="%s: reader returned no cell for the written file" % itf)
    if isinstance(got, tuple):  # (written file read independently, harness-written file read by the interface)
        badr = same_crystal(cell, got[1], dist, 2e-6) if got[1] is not None else "reader returned nothing"
        if badr:
            return dict(ok=False, sig="C17/structure/%s-reader/%s" % (itf, "ten-or-more-atoms" if len(cell) >= 10 else case["cell"]), nontrivial=nontriv,
                        msg="%s %s %s: file in the documented input layout is read back wrongly: %s" % (itf, case["cell"], case["what"], badr))
        got = got[0]
    bad = same_crystal(cell, got, dist, 2e-6)
    if bad:
        feat = "interleaved-species" if case["cell"] in ("interleaved-tri", "NaClNaO-tri") else case["cell"]
        return dict(ok=False, sig="C17/structure/%s/%s" % (itf, feat), nontrivial=nontriv, msg="%s %s %s: %s" % (itf, case["cell"], case["what"], bad))
    return dict(ok=True, nontrivial=nontriv, transitions=2, outcome="ok:struct:" + itf)


VASPRUN = """<?xml version="1.0" encoding="ISO-8859-1"?>
<modeling>
 <generator><i name="version" type="string">5.4.4</i></generator>
 <atominfo><atoms>%(n)d</atoms><types>1</types>
  <array name="atoms"><dimension dim="1">ion</dimension><field type="string">element</field><field type="int">atomtype</field><set>
%(atoms)s  </set></array>
 </atominfo>
 <calculation>
  <structure>
   <crystal><varray name="basis">
%(basis)s   </varray></crystal>
   <varray name="positions">
%(pos)s   </varray>
  </structure>
  <varray name="forces">
%(forces)s  </varray>
  <energy>
   <i name="e_fr_energy">   -10.12345678 </i>
   <i name="e_wo_entrp">   -10.12345678 </i>
   <i name="e_0_energy">   -10.12345678 </i>
  </energy>
 </calculation>
</modeling>
"""


def run_pairing(case, seed):
    """create_FORCE_SETS on synthetic VASP outputs: consistent sets accepted, outputs of another displacement refused."""
    from phonopy import Phonopy
    from phonopy.cui.create_force_sets import create_FORCE_SETS
    from phonopy.file_IO import parse_FORCE_SETS
    from vtk.ref import springs as SP

    from phonopy.interface.phonopy_yaml import PhonopyYaml

    cell = make_cell(case.get("cell", "NaClNaO-tri"))
    ph = phx.quiet(Phonopy, cell, supercell_matrix=[[2, 0, 0], [0, 1, 0], [0, 0, 1]])
    phx.quiet(ph.generate_displacements, distance=0.03, is_plusminus=True)
    scs = ph.supercells_with_displacements
    n = len(scs)
    fc = SP.folded_fc(np.asarray(ph.supercell.cell), ph.supercell.positions, ph.supercell.symbols, SP.SpringModel(rc=4.0, seed=seed))
    F = SP.forces_for_dataset(fc, ph.dataset)
    order = list(range(n))
    sc = case["scenario"]
    if sc == "swapped-first-two":
        order[0], order[1] = order[1], order[0]
    elif sc == "swapped-later":
        order[-1], order[-2] = order[-2], order[-1]
    elif sc == "duplicate":
        order[-1] = order[0]
    with tempfile.TemporaryDirectory(prefix="c17p_") as td:
        cwd = os.getcwd()
        os.chdir(td)
        try:
            ph.save("phonopy_disp.yaml")
            files = []
            for k, idx in enumerate(order):
                c = scs[idx]
                if sc == "wrong-cell" and k == n - 1:
                    pos = c.scaled_positions + 0.013
                else:
                    pos = c.scaled_positions
                # VASP writes atoms grouped by species (stable): emulate the calculator
                perm = stable_grouping(c.symbols)
                txt = VASPRUN % dict(n=len(c), atoms="".join("   <rc><c>%s</c><c>1</c></rc>\n" % c.symbols[i] for i in perm),
                                     basis="".join("    <v> %.12f %.12f %.12f </v>\n" % tuple(v) for v in c.cell),
                                     pos="".join("    <v> %.12f %.12f %.12f </v>\n" % tuple(pos[i]) for i in perm),
                                     forces="".join("   <v> %.12f %.12f %.12f </v>\n" % tuple(F[idx][i]) for i in perm))
                if sc in ("last-step-moved", "two-steps-same-geometry") and k == n - 1:
                    # an output with two ionic steps: what counts (positions, forces) is the last one
                    calc1 = txt[txt.index(" <calculation>"):txt.index(" </calculation>") + len(" </calculation>\n")]
                    if sc == "last-step-moved":
                        pos2 = c.scaled_positions + 0.013
                        f2 = F[idx] * 0.5
                    else:
                        pos2, f2 = c.scaled_positions, F[idx]
                        calc1 = calc1.replace("".join("   <v> %.12f %.12f %.12f </v>\n" % tuple(F[idx][i]) for i in perm), "".join("   <v> %.12f %.12f %.12f </v>\n" % tuple(7.0 * F[idx][i] + 0.3) for i in perm))
                    txt2 = VASPRUN % dict(n=len(c), atoms="".join("   <rc><c>%s</c><c>1</c></rc>\n" % c.symbols[i] for i in perm),
                                          basis="".join("    <v> %.12f %.12f %.12f </v>\n" % tuple(v) for v in c.cell),
                                          pos="".join("    <v> %.12f %.12f %.12f </v>\n" % tuple(pos2[i]) for i in perm),
                                          forces="".join("   <v> %.12f %.12f %.12f </v>\n" % tuple(f2[i]) for i in perm))
                    calc2 = txt2[txt2.index(" <calculation>"):txt2.index(" </calculation>") + len(" </calculation>\n")]
                    txt = txt[:txt.index(" <calculation>")] + calc1 + calc2 + "</modeling>\n"
                fn = "vasprun-%03d.xml" % (k + 1)
                open(fn, "w").write(txt)
                files.append(fn)
            buf = io.StringIO()
            try:
                with contextlib.redirect_stdout(buf):
                    py = PhonopyYaml()
                    py.read("phonopy_disp.yaml")
                    ret = create_FORCE_SETS("vasp", files, phpy_yaml=py, symmetry_tolerance=1e-5, disp_filename="phonopy_disp.yaml", log_level=0)
                err = None
            except SystemExit as e:
                ret, err = 1, "SystemExit"
            except Exception as e:
                ret, err = 1, type(e).__name__
            accepted = (err is None) and os.path.exists("FORCE_SETS")
            grouped = list(ph.supercell.symbols) == [ph.supercell.symbols[i] for i in stable_grouping(ph.supercell.symbols)]
            if sc in ("consistent", "two-steps-same-geometry"):
                if not accepted:
                    if not grouped:
                        # "pairs forces with the right atoms or refuses": refusing species-regrouped output is allowed
                        return dict(ok=True, nontrivial=True, transitions=1, outcome="ok:pairing:regrouped-output-refused")
                    return dict(ok=False, sig="C17/pairing/consistent-refused", nontrivial=True, msg="consistent calculator outputs were refused (%s) %s" % (err, buf.getvalue()[-200:]))
                ds = parse_FORCE_SETS(filename="FORCE_SETS")
                for k, d in enumerate(ds["first_atoms"]):
                    # forces must be paired with atoms in phonopy's (input) order, i.e. un-grouped again
                    if np.abs(np.asarray(d["forces"]) - F[k]).max() > 1e-9:
                        return dict(ok=False, sig="C17/pairing/forces-mispaired", nontrivial=True, msg="FORCE_SETS forces of displacement %d are not paired with the right atoms (max dev %.3g)" % (k + 1, np.abs(np.asarray(d["forces"]) - F[k]).max()))
            else:
                if accepted:
                    return dict(ok=False, sig="C17/pairing/inconsistent-accepted/%s" % sc, nontrivial=True, msg="outputs whose positions belong to another displacement (%s) were accepted and FORCE_SETS was written" % sc)
        finally:
            os.chdir(cwd)
    return dict(ok=True, nontrivial=True, transitions=1, outcome="ok:pairing:" + sc)


def run_pairing_lammps(case, seed):
    """create_FORCE_SETS with LAMMPS dumps: LAMMPS works in its own frame (a along x, b in the xy plane), so the dump carries
    positions and forces rotated by the rigid rotation that takes the SUPERCELL lattice there; FORCE_SETS must hold the forces
    of each displacement in phonopy's frame, atom by atom, whatever the order of the dump lines."""
    from phonopy import Phonopy
    from phonopy.cui.create_force_sets import create_FORCE_SETS
    from phonopy.file_IO import parse_FORCE_SETS
    from phonopy.interface.phonopy_yaml import PhonopyYaml
    from vtk.ref import springs as SP

    cell = make_cell(case["cell"])
    S = case["S"]
    ph = phx.quiet(Phonopy, cell, supercell_matrix=S, calculator="lammps")
    phx.quiet(ph.generate_displacements, distance=0.03)
    scs = ph.supercells_with_displacements
    sc = ph.supercell
    fc = SP.folded_fc(np.asarray(sc.cell), sc.positions, [x.rstrip("0123456789") for x in sc.symbols], SP.SpringModel(rc=4.0, seed=seed))
    F = SP.forces_for_dataset(fc, ph.dataset)
    L = np.asarray(sc.cell, float)
    if np.linalg.det(L) < 0:
        return dict(ok=True, skipped="left-handed supercell lattice (LAMMPS needs a right-handed one)")
    ex = L[0] / np.linalg.norm(L[0])
    ey = L[1] - (L[1] @ ex) * ex
    ey /= np.linalg.norm(ey)
    ez = np.cross(ex, ey)
    R = np.array([ex, ey, ez]).T  # v_lammps = v @ R
    n = len(sc)
    g = np.random.default_rng(5 + seed)
    order = {"sorted": list(range(n)), "reversed": list(range(n))[::-1], "shuffled": g.permutation(n).tolist()}[case["order"]]
    sp = sorted(set(sc.symbols), key=list(sc.symbols).index)
    with tempfile.TemporaryDirectory(prefix="c17l_") as td:
        cwd = os.getcwd()
        os.chdir(td)
        try:
            ph.save("phonopy_disp.yaml")
            files = []
            Ll = L @ R
            for k, c in enumerate(scs):
                pos = np.asarray(c.positions) @ R
                fl = F[k] @ R
                fn = "forces.%d" % k
                with open(fn, "w") as f:
                    f.write("ITEM: TIMESTEP\n0\nITEM: NUMBER OF ATOMS\n%d\n" % n)
                    f.write("ITEM: BOX BOUNDS xy xz yz pp pp pp\n%.12f %.12f %.12f\n%.12f %.12f %.12f\n%.12f %.12f %.12f\n" % (
                        0.0, Ll[0, 0], Ll[1, 0], 0.0, Ll[1, 1], Ll[2, 0], 0.0, Ll[2, 2], Ll[2, 1]))
                    f.write("ITEM: ATOMS id type x y z fx fy fz\n")
                    for i in order:
                        f.write("%d %d %.10f %.10f %.10f %.12f %.12f %.12f\n" % (i + 1, sp.index(c.symbols[i]) + 1, *pos[i], *fl[i]))
                files.append(fn)
            buf = io.StringIO()
            try:
                with contextlib.redirect_stdout(buf):
                    py = PhonopyYaml()
                    py.read("phonopy_disp.yaml")
                    create_FORCE_SETS("lammps", files, phpy_yaml=py, symmetry_tolerance=1e-5, disp_filename="phonopy_disp.yaml", log_level=0)
            except (SystemExit, Exception) as e:
                return dict(ok=False, sig="C17/pairing-lammps/refused", nontrivial=True, msg="%s S=%s: consistent LAMMPS dumps were refused (%s)" % (case["cell"], S, type(e).__name__))
            if not os.path.exists("FORCE_SETS"):
                return dict(ok=False, sig="C17/pairing-lammps/refused", nontrivial=True, msg="%s S=%s: no FORCE_SETS written" % (case["cell"], S))
            ds = parse_FORCE_SETS(filename="FORCE_SETS")
            for k, d in enumerate(ds["first_atoms"]):
                dev = np.abs(np.asarray(d["forces"]) - (F[k] - F[k].mean(axis=0))).max()
                if dev > 2e-9:
                    rot_only = np.abs(np.linalg.norm(np.asarray(d["forces"]), axis=1) - np.linalg.norm(F[k] - F[k].mean(axis=0), axis=1)).max() < 1e-8
                    return dict(ok=False, sig="C17/pairing-lammps/%s" % ("forces-in-wrong-frame" if rot_only else "forces-mispaired"), nontrivial=True, resid=float(dev),
                                msg="%s S=%s dump order %s: FORCE_SETS forces of displacement %d differ from the forces in phonopy's frame by %.3g%s" % (
                                    case["cell"], S, case["order"], k + 1, dev, " (same magnitudes atom by atom: rotated into another frame)" if rot_only else ""))
        finally:
            os.chdir(cwd)
    return dict(ok=True, nontrivial=bool(np.abs(R - np.eye(3)).max() > 1e-9 or case["order"] != "sorted"), transitions=1, outcome="ok:pairing-lammps")


def run_forcefile(case, seed):
    """A calculator output written by the harness in the calculator's own layout is parsed to the forces it carries, atom
    by atom; a truncated output is refused."""
    import importlib

    from phonopy.interface.calculator import get_calc_dataset
    from vtk import forcefiles as FF

    calc, n = case["calc"], case["n"]
    g = np.random.default_rng(1000 * n + seed)
    syms = [("Na", "Cl", "Na", "O")[i % 4] for i in range(n)]
    if calc in FF.GROUPED:
        syms = sorted(syms, key=("Na", "Cl", "O").index)
    blocks = []
    for _ in range(case["blocks"]):
        F = g.normal(size=(n, 3)) * case["mag"]
        F -= F.mean(axis=0)
        blocks.append(F)
    order = case["order"] or list(range(n))
    nontriv = bool(case["order"] and case["order"] != sorted(case["order"])) or case["blocks"] > 1 or case["short"] or n > 1
    tagc = "%s/n=%d/blocks=%d%s%s" % (calc, n, case["blocks"], "/order=%s" % case["order"] if case["order"] else "", "/truncated" if case["short"] else "")
    mod = importlib.import_module("phonopy.interface." + calc)
    with tempfile.TemporaryDirectory(prefix="c17f_") as td:
        path = FF.WRITERS[calc](os.path.join(td, "out-001"), blocks, syms, order)
        nexp = n + 1 if case["short"] else n
        buf = io.StringIO()
        res = {}
        for route, fn in (("parse_set_of_forces", lambda: mod.parse_set_of_forces(nexp, [path], verbose=False)),
                          ("get_calc_dataset", lambda: get_calc_dataset(calc, nexp, [path], verbose=False)["forces"])):
            try:
                with contextlib.redirect_stdout(buf), contextlib.redirect_stderr(buf):
                    res[route] = fn()
            except (Exception, SystemExit) as e:
                res[route] = e
    want = FF.EXPECT[calc] * blocks[-1]
    want = want - want.mean(axis=0)
    top = np.abs(want).max() + 1e-300
    tol = 1.01 * FF.RESOLUTION.get(calc, 0.0) + 1.01 * FF.REL_RESOLUTION.get(calc, 0.0) * top + 1e-13 * top
    if abs(FF.EXPECT[calc]) != 1.0:
        tol += 2e-6 * top  # unit constants of different CODATA vintages
    for route, r in res.items():
        refused = isinstance(r, BaseException) or r is None or len(r) == 0
        if case["short"]:
            if not refused:
                return dict(ok=False, sig="C17/forcefile/truncated-accepted/%s" % calc, nontrivial=True, msg="%s %s: an output holding forces of %d atoms was accepted for a %d-atom supercell" % (tagc, route, n, nexp))
            continue
        if refused:
            return dict(ok=False, sig="C17/forcefile/refused/%s" % calc, nontrivial=nontriv, msg="%s %s: a well-formed output was refused (%r) %s" % (tagc, route, r, buf.getvalue()[-150:]))
        got = np.asarray(r[0], float)
        if got.shape != want.shape:
            return dict(ok=False, sig="C17/forcefile/shape/%s" % calc, nontrivial=nontriv, msg="%s %s: shape %s" % (tagc, route, got.shape))
        d = np.abs(got - want).max()
        if d > tol:
            i = int(np.abs(got - want).max(axis=1).argmax())
            # is it a permutation of the right rows?
            perm = all(np.abs(want - row).max(axis=1).min() <= tol for row in got)
            return dict(ok=False, sig="C17/forcefile/%s/%s" % ("forces-mispaired" if perm else "forces-wrong", calc), nontrivial=nontriv, resid=float(d),
                        msg="%s %s: atom %d gets %s, the file says %s (x %g)" % (tagc, route, i + 1, got[i].tolist(), blocks[-1][i].tolist(), FF.EXPECT[calc]))
    return dict(ok=True, nontrivial=nontriv, transitions=2, outcome="ok:forcefile:" + ("refused-truncated" if case["short"] else calc))


def run_magmom(case, seed):
    """Magnetic cell written for a calculator: the moment listed k-th in MAGMOM belongs to the atom written k-th in the structure file
    (found by its position, independently of any index bookkeeping)."""
    from phonopy.interface import calculator as CALC
    from phonopy.structure.atoms import PhonopyAtoms

    calc, symbols = case["calc"], case["symbols"]
    n = len(symbols)
    tri = [[5.2, 0, 0], [0.7, 5.8, 0], [1.1, -0.8, 6.3]]
    pos = np.array([[(i + 1.0) / (n + 2), ((3 * i + 1) % (n + 3)) / (n + 3.0), ((5 * i + 2) % (n + 4)) / (n + 4.0)] for i in range(n)])
    mags = np.array([0.5 + i for i in range(n)]) if case["dim"] == 1 else np.array([[0.5 + i, -0.25 * i, 10.0 + i] for i in range(n)])
    cell = PhonopyAtoms(symbols=symbols, cell=tri, scaled_positions=pos, magnetic_moments=mags)
    tag = "%s/%s" % (calc, "collinear" if case["dim"] == 1 else "non-collinear")
    grouped = stable_grouping(symbols) == list(range(n))
    syms = [s_ for k_, s_ in enumerate(symbols) if s_ not in symbols[:k_]]
    with tempfile.TemporaryDirectory(prefix="c17m_") as td:
        cwd = os.getcwd()
        os.chdir(td)
        try:
            if calc == "vasp":
                phx.quiet(CALC.write_supercells_with_displacements, "vasp", cell, [cell])
                from phonopy.interface.vasp import read_vasp

                got = read_vasp("SPOSCAR")
            else:
                phx.quiet(CALC.write_supercells_with_displacements, "qe", cell, [cell], optional_structure_info=("x", {s_: s_ + ".UPF" for s_ in syms}))
                from phonopy.interface.qe import read_pwscf

                body = open("supercell.in").read()
                with open("supercell_full.in", "w") as w:  # phonopy writes the structure cards only; the namelists are the user's
                    w.write(HEAD_QE % (n, len(syms)) + body)
                got = read_pwscf("supercell_full.in")[0]
            if not os.path.exists("MAGMOM"):
                return dict(ok=False, sig="C17/magmom/missing/" + tag, nontrivial=not grouped, msg="%s %s: no MAGMOM file written for a magnetic cell" % (calc, symbols))
            txt = open("MAGMOM").read()
        finally:
            os.chdir(cwd)
    vals = np.array([float(x) for x in txt.split("=")[1].split()]).reshape(n, -1)
    gp = np.asarray(got.scaled_positions)
    for k in range(n):
        d = pos - gp[k]
        d -= np.rint(d)
        j = int(np.argmin(np.abs(d).sum(axis=1)))
        if np.abs(d[j]).max() > 1e-6 or got.symbols[k] != symbols[j]:
            return dict(ok=False, sig="C17/magmom/structure/" + tag, nontrivial=not grouped, msg="%s %s: atom %d of the written structure is not an atom of the cell" % (calc, symbols, k))
        if np.abs(vals[k] - np.atleast_1d(mags[j])).max() > 1e-12:
            return dict(ok=False, sig="C17/magmom/order/%s/%s" % (tag, "grouped" if grouped else "interleaved"), nontrivial=not grouped,
                        msg="%s %s: entry %d of MAGMOM is %s, but the atom written at place %d of the structure file (%s at %s) carries %s" % (
                            calc, "".join(s_[0] for s_ in symbols), k, vals[k].tolist(), k, symbols[j], pos[j].round(3).tolist(), np.atleast_1d(mags[j]).tolist()))
    return dict(ok=True, nontrivial=not grouped, transitions=2, outcome="ok:magmom:" + calc)


def run_scworkflow(case, seed):
    """Supercell files as the displacement workflow writes them (write_supercells_with_displacements with the unit cell's species
    information and the supercell matrix) for the formats whose writer is told how many unit cells the supercell holds."""
    from phonopy import Phonopy
    from phonopy.interface import calculator as CALC
    from phonopy.interface.calculator import get_default_physical_units
    from phonopy.structure.atoms import PhonopyAtoms, symbol_map

    itf = case["calc"]
    cell = make_cell(case["cell"])
    dist = get_default_physical_units(itf)["distance_to_A"]
    cell_u = PhonopyAtoms(symbols=cell.symbols, cell=np.asarray(cell.cell) / dist, scaled_positions=cell.scaled_positions)
    S = np.array(case["S"], int)
    ph = phx.quiet(Phonopy, cell_u, supercell_matrix=S)
    sc = ph.supercell
    sc_phys = PhonopyAtoms(symbols=sc.symbols, cell=np.asarray(sc.cell) * dist, scaled_positions=sc.scaled_positions)
    tag = "%s/%s" % (itf, "prod-diag=det" if abs(int(np.prod(np.diag(S)))) == abs(int(round(np.linalg.det(S)))) else "prod-diag!=det")
    with tempfile.TemporaryDirectory(prefix="c17w_") as td:
        cwd = os.getcwd()
        os.chdir(td)
        try:
            info = ("unitcell", ["%d.%d" % (symbol_map[s_], 1) for s_ in cell.symbols], ["verif fleur", "", "&end /"])
            phx.quiet(CALC.write_supercells_with_displacements, itf, sc, [sc], optional_structure_info=info, additional_info={"supercell_matrix": S})
            L = open("supercell.in").read().splitlines()
        except Exception as e:
            return dict(ok=False, sig="C17/supercell-workflow/raised/" + tag, nontrivial=True, msg="%s %s S=%s: %s: %s" % (itf, case["cell"], S.tolist(), type(e).__name__, str(e)[:150]))
        finally:
            os.chdir(cwd)
    lat = np.array([l.split()[:3] for l in L[1:4]], float) * float(L[4].split()[0]) * np.array(L[5].split()[:3], float)[None, :]
    n = int(L[7].split()[0])
    rows = [l.split() for l in L[8:8 + n]]
    got = PhonopyAtoms(numbers=[int(float(r[0])) for r in rows], cell=lat, scaled_positions=np.array([r[1:4] for r in rows], float))
    bad = same_crystal(sc_phys, got, dist, 2e-6)
    if bad:
        return dict(ok=False, sig="C17/supercell-workflow/" + tag, nontrivial=True, msg="%s %s S=%s: the supercell file of the displacement workflow is another crystal: %s" % (itf, case["cell"], S.tolist(), bad))
    return dict(ok=True, nontrivial=True, transitions=2, outcome="ok:supercell-workflow:" + itf)


def run_convert(case, seed):
    """convert_crystal_structure(file_in, interface_in, file_out, interface_out): the file written for the second calculator
    describes the same physical crystal (its numbers are in that calculator's length unit)."""
    from phonopy.interface import calculator as CALC
    from phonopy.interface.calculator import get_default_physical_units
    from phonopy.structure.atoms import PhonopyAtoms

    a, b = case["calc"], case["to"]
    cell = make_cell(case["cell"])
    da, db = get_default_physical_units(a)["distance_to_A"], get_default_physical_units(b)["distance_to_A"]
    cell_a = PhonopyAtoms(symbols=cell.symbols, cell=np.asarray(cell.cell) / da, scaled_positions=cell.scaled_positions)
    tag = "%s->%s" % (a, b)
    with tempfile.TemporaryDirectory(prefix="c17c_") as td:
        cwd = os.getcwd()
        os.chdir(td)
        try:
            phx.quiet(CALC.write_crystal_structure, "in_" + a, cell_a, interface_mode=a)
            phx.quiet(CALC.convert_crystal_structure, "in_" + a, a, "out_" + b, b)
            got, _ = phx.quiet(CALC.read_crystal_structure, "out_" + b, interface_mode=b)
        except Exception as e:
            return dict(ok=False, sig="C17/convert/raised/" + tag, nontrivial=True, msg="%s %s: %s: %s" % (tag, case["cell"], type(e).__name__, str(e)[:150]))
        finally:
            os.chdir(cwd)
    bad = same_crystal(cell, got, db, 2e-6)
    if bad:
        return dict(ok=False, sig="C17/convert/%s/%s" % ("same-length-unit" if abs(da - db) < 1e-12 else "length-unit-changes", tag), nontrivial=True,
                    msg="%s %s: the converted file does not describe the same physical crystal: %s" % (tag, case["cell"], bad))
    return dict(ok=True, nontrivial=bool(abs(da - db) > 1e-12), transitions=3, outcome="ok:convert")


def run_group(cases, seed):
    out = []
    for c in cases:
        k = c["kind"]
        if k == "convert":
            out.append(run_convert(c, seed))
            continue
        if k == "scworkflow":
            out.append(run_scworkflow(c, seed))
            continue
        if k == "magmom":
            out.append(run_magmom(c, seed))
            continue
        if k == "forcefile":
            out.append(run_forcefile(c, seed))
            continue
        if k == "pairing-lammps":
            out.append(run_pairing_lammps(c, seed))
            continue
        if k == "units":
            out.append(run_units(c))
        elif k == "fcconv":
            out.append(run_fcconv(c))
        elif k == "equiv":
            out.append(run_equiv(c, seed))
        elif k == "struct":
            out.append(run_struct(c, seed))
        else:
            out.append(run_pairing(c, seed))
    return out
