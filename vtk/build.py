"""Build variants of phonopy's C extension from the *current* /repo working tree.

No file is written under /repo.  Products go to /verif/build/<hash>/<variant>/.
The hash covers c/*.c, c/*.h, c/_phonopy.cpp, the nanobind stand-in, the vtomp
runtime and the variant's flags, so any edit of the sources gives a new build.
"""

from __future__ import annotations

import fcntl
import glob
import hashlib
import os
import shutil
import subprocess
import sys
import sysconfig

REPO = os.environ.get("VT_REPO", "/repo")
VERIF = os.path.dirname(os.path.dirname(os.path.abspath(__file__)))
BUILD = os.path.join(VERIF, "build")
SHIM = os.path.join(VERIF, "vtk", "nbshim")
VTOMP = os.path.join(VERIF, "vtk", "vtomp", "vt_rt.c")
SOABI = sysconfig.get_config_var("EXT_SUFFIX")
PYINC = sysconfig.get_paths()["include"]

VARIANTS = {
    # name: (cflags, ldflags, needs_vtomp)
    "omp": (["-O2", "-fopenmp"], ["-fopenmp"], False),
    "serial": (["-O2"], [], False),
    "san": (
        ["-O1", "-g", "-fsanitize=address,undefined", "-fno-sanitize-recover=all", "-fno-omit-frame-pointer"],
        ["-fsanitize=address,undefined"],
        False,
    ),
    "vt": (
        ["-O0", "-g", "-fopenmp", "-fsanitize=thread"],
        ["-Wl,--wrap=malloc,--wrap=free,--wrap=calloc,--wrap=realloc"],
        True,
    ),
}

COMMON = ["-fPIC", "-DTHM_EPSILON=1e-10", "-w"]


def _sources():
    c = sorted(glob.glob(os.path.join(REPO, "c", "*.c")))
    h = sorted(glob.glob(os.path.join(REPO, "c", "*.h")))
    cpp = [os.path.join(REPO, "c", "_phonopy.cpp")]
    return c, h, cpp


def tree_hash(variant: str) -> str:
    c, h, cpp = _sources()
    m = hashlib.sha256()
    files = c + h + cpp + sorted(glob.glob(os.path.join(SHIM, "nanobind", "*.h")))
    if VARIANTS[variant][2]:
        files.append(VTOMP)
    for f in files:
        m.update(os.path.basename(f).encode())
        with open(f, "rb") as fh:
            m.update(fh.read())
    m.update(repr(VARIANTS[variant]).encode())
    m.update(repr(COMMON).encode())
    return m.hexdigest()[:16]


def _run(cmd, cwd):
    r = subprocess.run(cmd, cwd=cwd, capture_output=True, text=True)
    if r.returncode != 0:
        sys.stderr.write("BUILD FAILED: %s\n%s\n%s\n" % (" ".join(cmd), r.stdout, r.stderr))
        raise SystemExit(2)


def ensure(variant: str = "omp") -> str:
    """Return the directory holding _phonopy<EXT_SUFFIX> for this variant (build if missing)."""
    hsh = tree_hash(variant)
    out = os.path.join(BUILD, hsh, variant)
    so = os.path.join(out, "_phonopy" + SOABI)
    if os.path.exists(so):
        return out
    os.makedirs(os.path.join(BUILD, hsh), exist_ok=True)
    lock = open(os.path.join(BUILD, hsh, variant + ".lock"), "w")
    fcntl.flock(lock, fcntl.LOCK_EX)
    try:
        if os.path.exists(so):
            return out
        tmp = out + ".tmp%d" % os.getpid()
        shutil.rmtree(tmp, ignore_errors=True)
        os.makedirs(tmp)
        cflags, ldflags, needs_vt = VARIANTS[variant]
        c, h, cpp = _sources()
        objs = []
        procs = []
        for f in c:
            o = os.path.join(tmp, os.path.basename(f)[:-2] + ".o")
            objs.append(o)
            procs.append(
                subprocess.Popen(
                    ["gcc", "-std=gnu99", *COMMON, *cflags, "-I", os.path.join(REPO, "c"), "-c", f, "-o", o],
                    stdout=subprocess.PIPE,
                    stderr=subprocess.STDOUT,
                    text=True,
                )
            )
        if needs_vt:
            o = os.path.join(tmp, "vt_rt.o")
            objs.append(o)
            procs.append(
                subprocess.Popen(
                    ["gcc", "-std=gnu99", "-O2", "-g", "-fPIC", "-w", "-c", VTOMP, "-o", o],
                    stdout=subprocess.PIPE,
                    stderr=subprocess.STDOUT,
                    text=True,
                )
            )
        # glue: never instrumented with tsan (it only casts pointers), but keeps asan for san
        gflags = [x for x in cflags if x not in ("-fsanitize=thread", "-fopenmp")]
        o = os.path.join(tmp, "_phonopy.o")
        objs.append(o)
        procs.append(
            subprocess.Popen(
                ["g++", "-std=c++17", *COMMON, *gflags, "-I", SHIM, "-I", os.path.join(REPO, "c"), "-I", PYINC,
                 "-c", cpp[0], "-o", o],
                stdout=subprocess.PIPE,
                stderr=subprocess.STDOUT,
                text=True,
            )
        )
        for p in procs:
            outp, _ = p.communicate()
            if p.returncode != 0:
                sys.stderr.write("BUILD FAILED (%s): %s\n" % (variant, outp))
                raise SystemExit(2)
        _run(["g++", "-shared", "-o", os.path.join(tmp, "_phonopy" + SOABI), *objs, *ldflags, "-lm"], tmp)
        if needs_vt:
            # fail loudly on any OpenMP construct the runtime does not model
            r = subprocess.run(["nm", "-u", os.path.join(tmp, "_phonopy" + SOABI)], capture_output=True, text=True)
            bad = [l.split()[-1] for l in r.stdout.splitlines()
                   if ("GOMP_" in l or "omp_" in l or "__tsan" in l)]
            if bad:
                sys.stderr.write("vt variant has unmodelled runtime symbols: %s\n" % bad)
                raise SystemExit(2)
        os.rename(tmp, out)
        return out
    finally:
        fcntl.flock(lock, fcntl.LOCK_UN)
        lock.close()


_loaded = None


def load(variant: str = "omp"):
    """Make `import phonopy` use /repo sources and the given extension variant."""
    global _loaded
    if _loaded is not None:
        if _loaded != variant:
            raise RuntimeError("variant %s already loaded, cannot load %s" % (_loaded, variant))
        import phonopy._phonopy as phonoc
        return phonoc
    d = ensure(variant)
    if sys.path[0] != REPO:
        sys.path.insert(0, REPO)
    import phonopy

    if not os.path.realpath(phonopy.__file__).startswith(os.path.realpath(REPO)):
        raise RuntimeError("phonopy imported from %s, not from %s" % (phonopy.__file__, REPO))
    phonopy.__path__.append(d)
    import phonopy._phonopy as phonoc

    if not phonoc.__file__.startswith(d):
        raise RuntimeError("wrong extension loaded: %s" % phonoc.__file__)
    _loaded = variant
    return phonoc


def gc_old(keep: int = 3):
    """Remove all but the `keep` most recent hash dirs (disk hygiene)."""
    if not os.path.isdir(BUILD):
        return
    ds = [os.path.join(BUILD, d) for d in os.listdir(BUILD) if len(d) == 16 and os.path.isdir(os.path.join(BUILD, d))]
    ds.sort(key=os.path.getmtime, reverse=True)
    for d in ds[keep * len(VARIANTS):]:
        shutil.rmtree(d, ignore_errors=True)


if __name__ == "__main__":
    for v in sys.argv[1:] or ["omp", "serial"]:
        print(v, ensure(v))
