"""SMAT alphabet: supercell matrices."""
from __future__ import annotations

import itertools

import numpy as np


def det3(m):
    m = np.asarray(m)
    return int(round(
        m[0][0] * (m[1][1] * m[2][2] - m[1][2] * m[2][1])
        - m[0][1] * (m[1][0] * m[2][2] - m[1][2] * m[2][0])
        + m[0][2] * (m[1][0] * m[2][1] - m[1][1] * m[2][0])))


def D3(maxn=3):
    return [np.diag(t).tolist() for t in itertools.product(range(1, maxn + 1), repeat=3)]


def HNF(maxdet=4):
    """All Hermite normal forms (lower triangular, 0<=offdiag<diag of the row) with det<=maxdet."""
    out = []
    for d in range(1, maxdet + 1):
        for a in range(1, d + 1):
            if d % a:
                continue
            for c in range(1, d // a + 1):
                if (d // a) % c:
                    continue
                f = d // a // c
                for b in range(c):
                    for dd in range(f):
                        for e in range(f):
                            out.append([[a, 0, 0], [b, c, 0], [dd, e, f]])
    return out


def SMALL(entries=(-1, 0, 1)):
    """Every 3x3 integer matrix with entries from `entries` (including singular / negative det)."""
    for t in itertools.product(entries, repeat=9):
        yield [list(t[0:3]), list(t[3:6]), list(t[6:9])]


NONDIAG12 = [
    [[1, 1, 0], [0, 1, 0], [0, 0, 1]],
    [[2, 1, 0], [0, 1, 0], [0, 0, 1]],
    [[1, 1, 0], [-1, 1, 0], [0, 0, 1]],
    [[1, 1, 0], [0, 2, 0], [-1, 0, 2]],
    [[-1, 1, 1], [1, -1, 1], [1, 1, -1]],
    [[0, 1, 1], [1, 0, 1], [1, 1, 0]],
    [[2, 0, 0], [1, 1, 0], [0, 1, 2]],
    [[1, 0, 1], [0, 2, 0], [-1, 0, 1]],
    [[2, -1, 0], [1, 1, 0], [0, 0, 1]],
    [[0, 1, 0], [0, 0, 1], [1, 0, 0]],
    [[1, 2, 0], [0, 1, 0], [1, 0, 2]],
    [[3, 1, 0], [0, 1, 0], [0, 0, 1]],
]
