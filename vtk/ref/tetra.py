"""Linear tetrahedron method from its geometric definition (independent of the 24x4 vertex-weight case tables).

n(w): fraction of the tetrahedron's volume where the linearly interpolated function is below w (Lehmann-Taut),
g(w) = dn/dw.  Valid for distinct vertex values; callers break ties by an infinitesimal perturbation and stay
away from the vertex values themselves.
"""
from __future__ import annotations

import numpy as np


def n_of(w, e):
    e1, e2, e3, e4 = sorted(float(x) for x in e)
    if w <= e1:
        return 0.0
    if w >= e4:
        return 1.0
    if w < e2:
        return (w - e1) ** 3 / ((e2 - e1) * (e3 - e1) * (e4 - e1))
    if w < e3:
        a = (e2 - e1) ** 2 + 3 * (e2 - e1) * (w - e2) + 3 * (w - e2) ** 2
        b = (e3 - e1 + e4 - e2) / ((e3 - e2) * (e4 - e2)) * (w - e2) ** 3
        return (a - b) / ((e3 - e1) * (e4 - e1))
    return 1.0 - (e4 - w) ** 3 / ((e4 - e1) * (e4 - e2) * (e4 - e3))


def g_of(w, e):
    e1, e2, e3, e4 = sorted(float(x) for x in e)
    if w <= e1 or w >= e4:
        return 0.0
    if w < e2:
        return 3 * (w - e1) ** 2 / ((e2 - e1) * (e3 - e1) * (e4 - e1))
    if w < e3:
        a = 3 * (e2 - e1) + 6 * (w - e2)
        b = 3 * (e3 - e1 + e4 - e2) / ((e3 - e2) * (e4 - e2)) * (w - e2) ** 2
        return (a - b) / ((e3 - e1) * (e4 - e1))
    return 3 * (e4 - w) ** 2 / ((e4 - e1) * (e4 - e2) * (e4 - e3))


def _M(i, k, w, t):
    """Curry-Schoenberg B-spline of order k on knots t[i..i+k], unit integral; zero-width pieces vanish (tied knots)."""
    if k == 1:
        return 1.0 / (t[i + 1] - t[i]) if t[i] <= w < t[i + 1] else 0.0
    d = t[i + k] - t[i]
    if d == 0:
        return 0.0
    return k / (k - 1.0) * ((w - t[i]) * _M(i, k - 1, w, t) + (t[i + k] - w) * _M(i + 1, k - 1, w, t)) / d


def g_exact(w, e):
    """Density of values of the linear interpolant over the tetrahedron = quadratic B-spline with the vertex values as
    knots (Curry-Schoenberg); valid with tied vertex values (not all four equal); right-continuous at the knots."""
    t = sorted(float(x) for x in e)
    return _M(0, 3, float(w), t)


def n_exact(w, e):
    """Volume fraction below w: the integral of g_exact, by 2-point Gauss quadrature on each knot interval (exact for
    the piecewise quadratic)."""
    t = sorted(float(x) for x in e)
    if w <= t[0]:
        return 0.0
    if w >= t[3]:
        return 1.0
    tot = 0.0
    for a, b in zip(t[:-1], t[1:]):
        b = min(b, w)
        if b <= a:
            continue
        m, h = 0.5 * (a + b), 0.5 * (b - a)
        for x in (-1 / 3 ** 0.5, 1 / 3 ** 0.5):
            tot += h * _M(0, 3, m + h * x, t)
    return tot


def selfcheck():
    import itertools

    for a in itertools.product([0, 0.003, 2.0, 2.001, 1, 3], repeat=4):
        if len(set(a)) == 1:
            continue
        for w in [-0.5, 0.001, 0.0015, 0.5, 1.3, 2.0005, 2.0 + 1e-6, 2.5, 3.5]:
            if min(abs(w - np.array(a))) < 1e-4:
                continue  # the perturbed closed form is inaccurate within ~1e3 perturbations of a vertex value
            p = np.array(a) + np.arange(4) * 1e-9
            assert abs(n_exact(w, a) - n_of(w, p)) < 2e-5, (a, w, n_exact(w, a), n_of(w, p))
            assert abs(g_exact(w, a) - g_of(w, p)) < 2e-5 * max(1.0, g_of(w, p)), (a, w, g_exact(w, a), g_of(w, p))
    rng = np.random.default_rng(0)
    for _ in range(50):
        e = np.sort(rng.uniform(0, 1, 4))
        # Monte Carlo free check is not available; use exact properties: continuity at the vertices, n(e4)=1, dn/dw=g
        for w in (e[1], e[2]):
            assert abs(n_of(w - 1e-9, e) - n_of(w + 1e-9, e)) < 1e-6
        assert abs(n_of(e[3] - 1e-12, e) - 1) < 1e-6
        for w in rng.uniform(e[0], e[3], 5):
            h = 1e-6
            if min(abs(w - e)) < 1e-4:
                continue
            assert abs((n_of(w + h, e) - n_of(w - h, e)) / (2 * h) - g_of(w, e)) < 1e-4 * max(1.0, g_of(w, e))
    # exact value: for vertex values (0,1,1,1)->perturbed the sub-level set {f<w} is a scaled corner: n = w^3
    assert abs(n_of(0.5, (0, 1, 1 + 1e-9, 1 + 2e-9)) - 0.125) < 1e-6
    # (0,0,0,1): n = 1-(1-w)^3
    assert abs(n_of(0.5, (0, 1e-9, 2e-9, 1)) - (1 - 0.125)) < 1e-6
