#!/bin/bash
# usage: tools/multiseed.sh "C01 C02 ..." "1 2 3 7 12345" [tier]
cd /verif
for c in $1; do for s in $2; do
  out=$(VERIF_SEED=$s VT_NO_EVIDENCE=1 VT_REPLAY_DIR=/tmp/vt_replays_ms ./vt check $c --tier ${3:-quick} 2>&1 | grep -v "^Warning")
  rc=$?
  echo "$c seed=$s $(echo "$out" | grep -c VIOLATION) violations :: $(echo "$out" | tail -1 | cut -c1-80)"
  echo "$out" | grep VIOLATION | cut -c1-300
done; done
