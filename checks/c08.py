"""C08 — the non-analytical term correction has the right limits.

Product walk over polar crystals x Born/dielectric input x supercell x layout x method x unit factor; inside a case
every direction of a 16-direction set at three lengths (zone-centre limit), every commensurate q (all first-zone
representatives and shifted copies) and generic q.  Oracle: the analytic term (4 pi/V) f (n.Z_j)(n.Z_j')/(n.eps.n)/sqrt(m m').
"""
from __future__ import annotations

import itertools

import numpy as np

from vtk import phx
from vtk.alphabet import qsets as Q
from vtk.ref import lattice as RL

ID = "C08"
VARIANT = "omp"
TECHNIQUE = "bounded-exhaustive product walk over (polar crystal, Born/eps input, supercell, layout, NAC method, factor) x direction set x commensurate q-set on the real dynamical-matrix code; analytic-limit oracle"
RULE = ("case = (crystal, born kind, S, layout, method, factor); all directions / lengths / commensurate points are evaluated inside; "
        "non-trivial = Born tensors are anisotropic or differ in orientation between atoms")
ASSUMPTIONS = ["the Born and dielectric tensors used by the oracle are read back from the object after phonopy's symmetrisation",
               "Gonze-Lee: equality at commensurate q is asked at a shortest first-zone representative to 2e-5 (the non-periodicity of the truncated reciprocal sum with the default cutoff)"]
BUDGET = {"quick": 900, "thorough": 3400}

XT = ["perovskite-5", "NaCl-prim-2", "CsCl-2", "zincblende-prim-2", "wurtzite-4", "rhomb-prim-2", "ortho-P-2", "tri-P1-3", "mono-Pm-2"]
DIRS = [(1, 0, 0), (0, 1, 0), (0, 0, 1), (1, 1, 0), (1, 0, 1), (0, 1, 1), (1, -1, 0), (1, 0, -1), (0, 1, -1), (1, 1, 1), (1, 1, -1), (1, -1, 1), (-1, 1, 1),
        (1, 2, 3), (0.3, -0.7, 0.2), (-2, 0.1, 0.9)]
LENGTHS = [1e-3, 1.0, 50.0]


def plan(tier, seed):
    groups = []
    Ss = [[[2, 0, 0], [0, 1, 0], [0, 0, 1]], [[2, 0, 0], [0, 2, 0], [0, 0, 2]], [[1, 1, 0], [-1, 1, 0], [0, 0, 1]], [[1, 0, 0], [0, 1, 0], [0, 0, 1]],
          [[2, 1, 0], [0, 1, 0], [0, 0, 1]]]  # the last one generates another sublattice than its transpose
    if tier == "thorough":
        Ss += [[[3, 0, 0], [0, 1, 0], [0, 0, 2]], [[2, 0, 1], [0, 1, 0], [0, 0, 2]]]
    factors = [14.399652, 1.0, 2.0] if tier == "quick" else [14.399652, 1.0, 2.0, 27.211 * 0.529, 0.5]
    n = 0
    from vtk.alphabet import crystals as X

    xts = XT if tier == "quick" else XT + ["trig-P3-4", "rutile-6", "mono-Pc-2", "tri-P1-2", "hcp-2", "NaCl-conv-8-interleaved"]
    if tier != "quick":
        Ss += [[[1, 0, 1], [0, 2, 0], [-1, 0, 1]], [[1, 1, 1], [0, 2, 0], [0, 0, 2]], [[-1, 1, 1], [1, -1, 1], [1, 1, -1]]]
    for name in xts:
        nat = len(X.by_name()[name]["symbols"])
        for S in Ss:
            if abs(RL.det3(S)) * nat > (32 if tier == "quick" else 48):
                continue
            g = []
            # born varies fastest: consecutive cases re-set nac_params with the same method on the same object (a history)
            for layout, method, f, born in itertools.product(("full", "compact"), ("wang", "gonze"), factors, ("isotropic", "random", "zero")):
                if tier == "quick" and f != factors[0] and (born != "random" or layout != "full"):
                    continue
                g.append({"xtal": name, "S": S, "born": born, "layout": layout, "method": method, "factor": f})
                n += 1
            groups.append(g)
    # centred conventional cells with their primitive matrix (the reciprocal basis of the primitive cell is then not reduced:
    # body-centred tetragonal, C-centred monoclinic, face-centred cubic)
    for name, pm_, S in (("bct-AB-conv-4", "I", [[2, 0, 0], [0, 2, 0], [0, 0, 1]]), ("bct-AB-conv-4", "I", [[2, 0, 0], [0, 2, 0], [0, 0, 2]]),
                         ("mono-C-conv-4", "C", [[2, 0, 0], [0, 2, 0], [0, 0, 1]]), ("NaCl-conv-8-interleaved", "F", [[1, 0, 0], [0, 1, 0], [0, 0, 1]])):
        g = []
        for layout, method, born in itertools.product(("full", "compact"), ("wang", "gonze"), ("isotropic", "random", "zero")):
            g.append({"xtal": name, "S": S, "pm": pm_, "born": born, "layout": layout, "method": method, "factor": factors[0]})
            n += 1
        groups.append(g)
    meta = {"alphabet": {"crystals": xts, "S": len(Ss), "born": 3, "layout": 2, "method": 2, "factors": factors, "directions": len(DIRS), "lengths": LENGTHS, "cases": n},
            "bound": "complete product (quick: non-default factors only with random Born/full layout)", "exhaustive": True,
            "not_covered": ["Gonze-Lee with_full_terms=True (needs scipy)", "q+G representatives other than the shortest ones for Gonze-Lee (periodicity is not claimed)"]}
    return groups, meta


def make_nac(ph, kind, method, factor, seed):
    nat = len(ph.primitive)
    g = np.random.default_rng(21 + seed)
    if kind == "zero":
        born = np.zeros((nat, 3, 3))
    elif kind == "isotropic":
        z = np.array([1.3 if i % 2 == 0 else -1.3 for i in range(nat)])
        z -= z.mean()
        born = np.array([np.eye(3) * zi for zi in z])
    else:
        born = g.normal(size=(nat, 3, 3)) * 0.5 + np.array([np.eye(3) * (1.5 if i % 2 == 0 else -1.5) for i in range(nat)])
        born -= born.mean(axis=0)
    # "random": a general 3x3 dielectric tensor (its antisymmetric part is allowed by several point groups, e.g. 4, 3, 6, 1, and
    # survives phonopy's symmetrisation there); only the symmetric part enters n.eps.n
    eps = np.eye(3) * 2.7 + (0.4 * g.normal(size=(3, 3)) if kind == "random" else 0)
    return {"born": np.array(born, dtype="double", order="C"), "dielectric": np.array(eps, dtype="double", order="C"), "factor": float(factor), "method": method}


def run_group(cases, seed):
    st = {}
    return [run_case(c, seed, st) for c in cases]


def run_case(case, seed, st):
    tag = "%s/%s/%s%s" % (case["method"], case["born"], case["layout"], "/pm=%s" % case["pm"] if case.get("pm") else "")
    if "ph" not in st:
        c = phx.xtal(case["xtal"])
        st["ph"] = phx.make_phonopy(c, case["S"], case.get("pm"))
        st["ph0"] = phx.make_phonopy(c, case["S"], case.get("pm"))  # never carries NAC parameters: reference D_noNAC
        st["fc"] = phx.supercell_fc(st["ph"], phx.model_for(st["ph"], "nn", seed))
    ph = st["ph"]
    ph0 = st["ph0"]
    p2s = np.asarray(ph.primitive.p2s_map)
    fc = np.array(st["fc"] if case["layout"] == "full" else st["fc"][p2s], dtype="double", order="C")
    trans = 0

    def fail(kind, msg, resid=None, nontriv=True):
        return dict(ok=False, sig="C08/%s/%s" % (kind, tag), resid=resid, nontrivial=nontriv, transitions=trans,
                    msg="%s S=%s factor=%g %s: %s" % (case["xtal"], case["S"], case["factor"], tag, msg))

    try:
        ph0.force_constants = fc.copy()
        if st.get("layout") != case["layout"]:
            ph.nac_params = None
            ph.force_constants = fc.copy()
            st["layout"] = case["layout"]
        Lp = np.asarray(ph.primitive.cell)
        Sp = np.rint(np.asarray(ph.supercell.cell) @ np.linalg.inv(Lp)).astype(int).T
        comm = Q.commensurate(Sp)
        rec = np.linalg.inv(Lp)  # columns: reciprocal basis (no 2 pi)
        # q-set: Gamma, commensurate (first-zone representatives incl. ties, and shifted copies), generic
        gen = Q.generic(seed, 3)
        reps = []
        for qc in comm[1:]:
            cand = [qc + np.array(G) for G in itertools.product((-2, -1, 0, 1), repeat=3)]
            ln = np.array([np.linalg.norm(rec @ x) for x in cand])
            reps.append([cand[i] for i in np.where(ln < ln.min() * (1 + 1e-5) + 1e-9)[0]])  # same tie window as phonopy's zone search
        shifted = [qc + np.array([1.0, 0, -1.0]) for qc in comm[1:]]
        allq = [np.zeros(3)] + [r for rr in reps for r in rr] + shifted + gen
        ph0.run_qpoints(allq, with_dynamical_matrices=True)
        D0 = np.array(ph0.get_qpoints_dict()["dynamical_matrices"])
        trans += len(allq)
        nac = make_nac(ph, case["born"], case["method"], case["factor"], seed)
        ph.nac_params = nac
        dm = ph.dynamical_matrix
        Z = np.array(dm.born)
        eps = np.array(dm.dielectric_constant)
        f = case["factor"]
        m = np.asarray(ph.primitive.masses)
        V = abs(np.linalg.det(Lp))
        scale = max(np.abs(D0).max(), 1e-9)
        aniso = bool(case["born"] == "random")
        ph.run_qpoints(allq, with_dynamical_matrices=True)
        D1 = np.array(ph.get_qpoints_dict()["dynamical_matrices"])
        trans += len(allq)
    except Exception as e:
        import traceback

        return fail("raised", "%s: %s" % (type(e).__name__, traceback.format_exc()[-300:]))
    nat = len(m)
    # (0) the tensors phonopy uses are the input averaged over the space group of the primitive cell: for every operation
    # {W|t} and atom i, the atom j with W x_j + t = x_i contributes R Z_j R^T (R = Cartesian form of W); same for eps
    if case["born"] == "random" and case["method"] == "wang" and case["layout"] == "full" and case["factor"] == 14.399652:
        ops_ = ph.primitive_symmetry.symmetry_operations
        xp = ph.primitive.scaled_positions
        Lc = np.asarray(ph.primitive.cell).T  # columns = lattice vectors
        Zin, Ein = np.array(nac["born"], float), np.array(nac["dielectric"], float)
        Zs, Es = np.zeros_like(Zin), np.zeros((3, 3))
        okmap = True
        for W, t in zip(ops_["rotations"], ops_["translations"]):
            Rc = Lc @ np.asarray(W, float) @ np.linalg.inv(Lc)
            Es += Rc @ Ein @ Rc.T
            for i in range(nat):
                d_ = (xp @ np.asarray(W, float).T + t) - xp[i]
                j = np.where(np.abs(d_ - np.rint(d_)).max(axis=1) < 1e-5)[0]
                if len(j) != 1:
                    okmap = False
                    break
                Zs[i] += Rc @ Zin[j[0]] @ Rc.T
        nops = len(ops_["rotations"])
        if okmap:
            Zs /= nops
            Es /= nops
            Zs_n = Zs - Zs.sum(axis=0) / nat  # acoustic sum rule is imposed after the average
            e_sym = min(np.abs(Z - Zs).max(), np.abs(Z - Zs_n).max())
            if e_sym > 1e-8 or np.abs(eps - Es).max() > 1e-8:
                return fail("born-symmetrisation", "the Born tensors in use differ from the space-group average of the input by %.3g (dielectric: %.3g); %d operations" % (e_sym, np.abs(eps - Es).max(), nops), float(e_sym), True)
    # (c) zero Born charges: no-op everywhere
    if case["born"] == "zero":
        e = np.abs(D1 - D0).max() / scale
        if e > 1e-10:
            return fail("zero-charge-not-noop", "D changes by %.3g (rel) with Z = 0" % e, float(e), nontriv=False)
    # (b) commensurate q != 0
    k = 1
    worst_comm = 0.0
    nrep = sum(len(rr) for rr in reps)
    for ic, rr in enumerate(reps):
        errs = []
        for r in rr:
            errs.append(np.abs(D1[k] - D0[k]).max() / scale)
            k += 1
        e = min(errs) if case["method"] == "gonze" else max(errs)
        worst_comm = max(worst_comm, e)
        # Gonze-Lee: the short-range constants are the REAL inverse transform of D - D_dd at the first-zone representatives;
        # the truncated reciprocal sum is periodic in q only to its own precision (measured: 1e-4 between neighbouring
        # representatives, <= 5e-6 at a shortest one for the default cutoff), which bounds what "unchanged" can mean
        tol = 1e-12 if case["method"] == "wang" else 2e-5
        if case["method"] == "gonze":
            # ... and that precision depends on the data (a dielectric tensor with an eigenvalue near 1 makes the sum decay slowly:
            # 2.4e-4 at the zone boundary).  It is measured on phonopy's own output: D_noNAC is exactly periodic, so the change of
            # (D - D_noNAC) between this point and its copy shifted by a reciprocal lattice vector is the non-periodicity itself.
            ksh = 1 + nrep + ic
            defect = np.abs((D1[ksh] - D0[ksh]) - (D1[k - 1] - D0[k - 1])).max() / scale
            tol = max(tol, 2.0 * defect)
        if e > tol:
            return fail("commensurate-q-changed", "D at commensurate q=%s changes by %.3g (rel) when NAC is switched on" % (rr[0].round(4).tolist(), e), float(e), aniso)
    if case["method"] == "wang":
        for i, qs in enumerate(shifted):
            e = np.abs(D1[k] - D0[k]).max() / scale
            k += 1
            if e > 1e-12:
                return fail("commensurate-q-changed", "D at shifted commensurate q=%s changes by %.3g (rel)" % (qs.round(4).tolist(), e), float(e), aniso)
    # (a) zone-centre limit for every direction and length; (d) batch path == per-q path
    worst = 0.0
    for d in DIRS:
        for ln in LENGTHS:
            n_red = np.array(d, float) * ln
            nc = rec @ n_red  # Cartesian direction
            nZ = np.einsum("g,jga->ja", nc, Z)  # (n.Z_j)_alpha
            den = nc @ eps @ nc
            want = np.zeros((3 * nat, 3 * nat))
            for i in range(nat):
                for j in range(nat):
                    want[3 * i:3 * i + 3, 3 * j:3 * j + 3] = 4 * np.pi / V * f * np.outer(nZ[i], nZ[j]) / den / np.sqrt(m[i] * m[j])
            ph.run_qpoints([[0, 0, 0]], nac_q_direction=n_red, with_dynamical_matrices=True)
            got = np.array(ph.get_qpoints_dict()["dynamical_matrices"][0]) - D0[0]
            trans += 1
            e = np.abs(got - want).max() / max(np.abs(want).max(), scale * 1e-3, 1e-12)
            worst = max(worst, e)
            if e > 1e-9:
                return fail("gamma-limit", "direction %s (length %g): D(Gamma;n)-D_noNAC(Gamma) differs from the analytic term by %.3g (rel)" % (list(d), ln, e), float(e), aniso)
            dm.run(np.zeros(3), q_direction=n_red)
            got2 = np.array(dm.dynamical_matrix) - D0[0]
            if np.abs(got2 - got).max() > 1e-12 * max(np.abs(got).max(), scale):
                return fail("batch-vs-single", "run_qpoints and DynamicalMatrixNAC.run disagree at Gamma for direction %s" % (list(d),), None, aniso)
    # (a') the same limit approached along a line of small but non-zero q (no direction given): D(q) - D_noNAC(q) -> analytic term
    for d in DIRS[:3] + DIRS[-2:]:
        n_red = np.array(d, float)
        nc = rec @ n_red
        nZ = np.einsum("g,jga->ja", nc, Z)
        den = nc @ eps @ nc
        want = np.zeros((3 * nat, 3 * nat))
        for i in range(nat):
            for j in range(nat):
                want[3 * i:3 * i + 3, 3 * j:3 * j + 3] = 4 * np.pi / V * f * np.outer(nZ[i], nZ[j]) / den / np.sqrt(m[i] * m[j])
        amax = np.linalg.norm(np.asarray(ph.supercell.cell), axis=1).max()
        for qlen in (3e-4, 2e-3):  # 1/Angstrom, above phonopy's zone-centre tolerance of 1e-5
            # analytic remainder of both schemes is O(|q| x interpolation length) relative to the matrix scale
            slack = 2 * np.pi * qlen * amax * scale
            if np.abs(want).max() < 20 * slack:
                continue
            qs_ = n_red * (qlen / np.linalg.norm(nc))
            ph.run_qpoints([qs_], with_dynamical_matrices=True)
            Dq = np.array(ph.get_qpoints_dict()["dynamical_matrices"][0])
            ph0.run_qpoints([qs_], with_dynamical_matrices=True)
            D0q = np.array(ph0.get_qpoints_dict()["dynamical_matrices"][0])
            trans += 2
            e = (np.abs((Dq - D0q) - want).max() - slack) / np.abs(want).max()
            if e > 0.05:
                return fail("small-q-limit", "direction %s, |q| = %g 1/A: D(q)-D_noNAC(q) differs from the zone-centre term by %.3g (rel): the correction does not converge to its limit" % (list(d), qlen, e), float(e), aniso)
    # generic q: batch == single
    for q in gen:
        dm.run(q)
        a = np.array(dm.dynamical_matrix)
        kq = [i for i, x in enumerate(allq) if x is q][0]
        if np.abs(a - D1[kq]).max() > 1e-11 * scale:
            return fail("batch-vs-single", "run_qpoints and DynamicalMatrixNAC.run disagree at q=%s by %.3g" % (q.tolist(), np.abs(a - D1[kq]).max() / scale), None, aniso)
    # the same q-points and directions handed over in other memory layouts
    from vtk.alphabet import qsets as QL

    qarr = np.array(allq[-len(gen) - 2:], float)
    kofs = len(allq) - len(qarr)
    for lname, qa in QL.layouts(qarr).items():
        ph.run_qpoints(qa, with_dynamical_matrices=True)
        Dl = np.array(ph.get_qpoints_dict()["dynamical_matrices"])
        trans += 1
        if np.abs(Dl - D1[kofs:]).max() > 1e-11 * scale:
            return fail("q-layout", "run_qpoints with the q-points as %s gives other dynamical matrices (by %.3g)" % (lname, np.abs(Dl - D1[kofs:]).max() / scale), None, aniso)
        if isinstance(qa, np.ndarray):
            dm.run(qa[-1])
            if np.abs(np.array(dm.dynamical_matrix) - D1[-1]).max() > 1e-11 * scale:
                return fail("q-layout", "DynamicalMatrixNAC.run(row of a %s array) differs from the same q as a fresh array" % lname, None, aniso)
    dirs = np.array([d for d in DIRS[-3:]], float)
    ref_d = []
    for d in dirs:
        ph.run_qpoints([[0, 0, 0]], nac_q_direction=d.copy(), with_dynamical_matrices=True)
        ref_d.append(np.array(ph.get_qpoints_dict()["dynamical_matrices"][0]))
    for lname, da in QL.layouts(dirs).items():
        if not isinstance(da, np.ndarray):
            continue
        for k_, d in enumerate(dirs):
            ph.run_qpoints([[0, 0, 0]], nac_q_direction=da[k_], with_dynamical_matrices=True)
            got = np.array(ph.get_qpoints_dict()["dynamical_matrices"][0])
            trans += 1
            if np.abs(got - ref_d[k_]).max() > 1e-11 * scale:
                return fail("direction-layout", "nac_q_direction given as a row of a %s array gives another D(Gamma)" % lname, None, aniso)
    # the Born / dielectric arrays handed over in other memory layouts (transposed storage, Fortran order, slices of a table)
    if case["born"] == "random" and case["factor"] == 14.399652:
        b0, e0 = np.array(nac["born"]), np.array(nac["dielectric"])
        tab = np.zeros((2 * nat, 3, 3))
        tab[::2] = b0
        tab[1::2] = 55.0
        stor = np.ascontiguousarray(b0.transpose(1, 2, 0))  # data kept as (3,3,natom)
        variants = {"fortran-order": (np.asfortranarray(b0), np.asfortranarray(e0)), "view-of-(3,3,natom)-storage": (stor.transpose(2, 0, 1), e0.T.copy().T),
                    "every-other-row-of-a-table": (tab[::2], e0), "nested-lists": (b0.tolist(), e0.tolist())}
        qtest = [np.zeros(3)] + list(gen)
        ph.nac_params = dict(nac, born=b0.copy(), dielectric=e0.copy())
        ph.run_qpoints(qtest, nac_q_direction=[0.3, -0.2, 0.5], with_dynamical_matrices=True)
        Dref = np.array(ph.get_qpoints_dict()["dynamical_matrices"])
        for vn, (bv, ev_) in variants.items():
            assert np.array_equal(np.asarray(bv), b0) and np.array_equal(np.asarray(ev_), e0)
            ph.nac_params = dict(nac, born=bv, dielectric=ev_)
            ph.run_qpoints(qtest, nac_q_direction=[0.3, -0.2, 0.5], with_dynamical_matrices=True)
            Dv = np.array(ph.get_qpoints_dict()["dynamical_matrices"])
            trans += len(qtest)
            e = np.abs(Dv - Dref).max() / scale
            if e > 1e-11:
                return fail("born-layout", "the same Born charges / dielectric tensor stored as %s give other dynamical matrices (by %.3g rel)" % (vn, e), float(e), aniso)
        ph.nac_params = nac
    # without a direction the zone centre itself carries no correction
    e = np.abs(D1[0] - D0[0]).max() / scale
    if e > 1e-10:
        return fail("gamma-without-direction", "D(Gamma) without direction changes by %.3g" % e, float(e), aniso)
    return dict(ok=True, nontrivial=aniso, transitions=trans, resid=float(max(worst, worst_comm if case["method"] == "wang" else 0)), outcome="ok:" + case["method"])
