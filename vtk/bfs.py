"""Explicit-state breadth-first search over operation histories of a real object.

A state is the history that reaches it; the object is rebuilt by replaying the history in a worker (live
objects do not copy reliably).  States are merged on a canonical key computed from the live object, so two
histories are merged only if the object itself cannot tell them apart.  Level-synchronous: all transitions of
depth d are executed (in parallel) before depth d+1 starts.
"""
from __future__ import annotations

import time
from concurrent.futures import ProcessPoolExecutor, as_completed
from concurrent.futures.process import BrokenProcessPool
import multiprocessing as mp


def bfs(step, init_key, ops_enabled, depth, nproc, initializer, initargs, budget_s=1e9, chunk=8, root=()):
    """step(history(list of op names)) -> dict(result..., key=<canonical key>, enabled=[ops])  (runs in a worker)
    Returns (transitions: list of (history, result), stats)."""
    t0 = time.time()
    seen = {init_key: list(root)}
    frontier = [(list(root), ops_enabled)]
    transitions = []
    stats = {"levels": [], "closed": False, "capped": False}
    ctx = mp.get_context("fork")
    ex = ProcessPoolExecutor(max_workers=nproc, mp_context=ctx, initializer=initializer, initargs=initargs)
    try:
        for d in range(1, depth + 1):
            tasks = [hist + [op] for hist, en in frontier for op in en]
            if not tasks:
                stats["closed"] = True
                break
            futs = {}
            for i in range(0, len(tasks), chunk):
                futs[ex.submit(_run_chunk, step, tasks[i:i + chunk])] = i
            new_frontier = []
            level_res = {}
            for fu in as_completed(futs):
                level_res[futs[fu]] = fu.result()
                if time.time() - t0 > budget_s:
                    stats["capped"] = True
                    break
            nnew = 0
            for i in sorted(level_res):
                for hist, res in zip(tasks[i:i + chunk], level_res[i]):
                    transitions.append((hist, res))
                    k = res.get("key")
                    if k is not None and k not in seen:
                        seen[k] = hist
                        new_frontier.append((hist, res.get("enabled", [])))
                        nnew += 1
            stats["levels"].append({"depth": d, "transitions": len(tasks), "new_states": nnew})
            if stats["capped"]:
                break
            frontier = new_frontier
            if not frontier:
                stats["closed"] = True
                break
    finally:
        ex.shutdown(wait=False, cancel_futures=True)
    stats["states"] = len(seen)
    return transitions, stats


def _run_chunk(step, histories):
    return [step(h) for h in histories]
