#!/venv/bin/python
"""Apply a kept seeded change to /repo, run the quick check(s), undo.  usage: run_seed.py C02-1 [C02 C13 ...]"""
import json, os, subprocess, sys, time

name = sys.argv[1]
checks = sys.argv[2:] or [name.split("-")[0]]
d = "/verif/seeded/" + name
st = subprocess.run("git -C /repo status --short", shell=True, capture_output=True, text=True).stdout.strip()
assert st == "", "/repo not clean: " + st
r = subprocess.run("git -C /repo apply %s/patch.diff" % d, shell=True, capture_output=True, text=True)
assert r.returncode == 0, r.stderr
res = {}
try:
    for c in checks:
        t0 = time.time()
        tier = os.environ.get("SEED_TIER", "quick")
        r = subprocess.run("./vt check %s --tier %s" % (c, tier), shell=True, cwd="/verif", capture_output=True, text=True,
                           env=dict(os.environ, VT_NO_EVIDENCE="1", VT_REPLAY_DIR="/tmp/vt_replays"))
        viol = [l for l in r.stdout.splitlines() if l.startswith("VIOLATION")]
        res[c] = {"rc": r.returncode, "violations": len(viol), "first": (viol[0][:300] if viol else ""), "wall": round(time.time() - t0, 1),
                  "stderr_tail": r.stderr[-300:] if r.returncode not in (0, 1) else ""}
finally:
    subprocess.run("git -C /repo checkout -- .", shell=True)
mp = d + "/meta.json"
meta = json.load(open(mp)) if os.path.exists(mp) else {}
meta.setdefault("detection", {}).update({"%s/%s" % (c, os.environ.get("SEED_TIER", "quick")): v for c, v in res.items()})
json.dump(meta, open(mp, "w"), indent=1)
for c, v in res.items():
    print(name, c, "DETECTED" if (v["rc"] == 1 and v["violations"] > 0) else ("MISSED" if v["rc"] == 0 else "HARNESS-ERROR rc=%d %s" % (v["rc"], v["stderr_tail"])), v["first"][:200])
