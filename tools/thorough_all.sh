#!/bin/bash
# usage: tools/thorough_all.sh "C20 C10 ..." <budget_s>   -> /tmp/thor/<id>.log
mkdir -p /tmp/thor
cd /verif
for c in $1; do
  /usr/bin/time -f "%e s" env VT_NO_EVIDENCE=1 VT_REPLAY_DIR=/tmp/vt_replays_thor VT_BUDGET_S=${2:-900} ./vt check $c --tier thorough > /tmp/thor/$c.log 2>&1
  echo "$c rc=$? $(grep -c VIOLATION /tmp/thor/$c.log) violations $(tail -1 /tmp/thor/$c.log)" >> /tmp/thor/SUMMARY
done
