"""C18 — command-line tools are faithful front-ends of the library.

(A) Settings machine, exhaustive over the option table of both commands: every option registered in phonopy_argparse
(completeness enforced against the parser itself) is given representative values including zero; the configuration
tag it feeds is learnt from the parser, and the settings object built from the option must equal the one built from
a configuration file carrying that tag with the same text; pairs of options are combined (interaction bound 2), both as
options, both as tags, and MIXED (one in the file, the other on the command line, both orientations).
(B) Workflows run in-process (phonopy / phonopy-load main): displacements, FORCE_SETS (-f, --fz), mesh, band, q-points,
DOS/PDOS, thermal properties, thermal displacements, write/read force constants, NAC, phonopy.yaml reload; every
output file is parsed and compared with the corresponding library call to the printed precision; every workflow runs on
a cubic and on a triclinic system; masses by option/tag incl. reload of the summary file; two-step histories in which the
yaml of the first step records another primitive matrix than the second step asks for (all 4x4 combinations, option and tag).
"""
from __future__ import annotations

import contextlib
import io
import itertools
import os
import sys
import tempfile

import numpy as np

from vtk import phx

ID = "C18"
VARIANT = "omp"
TECHNIQUE = "exhaustive enumeration of the argparse option table (x representative values incl. 0, x pairs) on the real two parsing routes; product walk over run modes of the in-process CLI with file-vs-library oracles"
RULE = ("case = (command, option, value) / (command, option pair) / (workflow mode, variation); non-trivial = value is zero or the option "
        "feeds more than one tag (settings), any deviation from the default run (workflows)")
ASSUMPTIONS = ["the CLI is run in-process through phonopy.cui.phonopy_script.main with patched sys.argv (same code path as the console scripts)",
               "phonopy-load runs use --fc-calc traditional (symfc is not installed)"]
BUDGET = {"quick": 900, "thorough": 3400}

# representative command-line values per argparse dest; options not listed here and not store_true/false must be in EXCLUDED
VALUES = {
    "displacement_distance": [["0.02"], ["0.05"]], "displacement_distance_max": [["0.1"]],
    "band_paths": [["0 0 0 1/2 0 0, 1/2 1/2 0 0 0 0"], ["auto"]], "band_labels": [["G", "X", "M", "G"]], "band_format": [["hdf5"]], "band_points": [["11"]],
    "band_indices": [["1 2, 3"]], "cell_filename": [["POSCAR-x"]], "cutoff_frequency": [["0.5"], ["0"]], "cutoff_radius": [["3.5"], ["0"]],
    "supercell_dimension": [["2", "2", "2"], ["2 0 0 0 2 0 0 0 2"], ["1", "1", "0", "-1", "1", "0", "0", "0", "1"]],
    "dynamical_matrix_decimals": [["6"], ["0"]], "create_force_sets": [["a.xml", "b.xml"]], "create_force_sets_zero": [["a.xml", "b.xml"]],
    "create_force_constants": [["vasprun.xml"]], "frequency_conversion_factor": [["15.6"]], "fc_calculator": [["traditional"]],
    "fc_calculator_options": [["cutoff = 4.0"]], "force_constants_decimals": [["6"], ["0"]], "fc_format": [["hdf5"]], "hdf5_compression": [["lzf"]],
    "mesh_format": [["hdf5"]], "qpoints_format": [["hdf5"]], "readfc_format": [["hdf5"]], "writefc_format": [["hdf5"]],
    "fmax": [["10"], ["0"]], "fmin": [["0.5"], ["0"], ["-1"]], "fpitch": [["0.1"]], "gv_delta_q": [["0.001"]], "irreps_qpoint": [["0", "0", "0", "1e-3"]],
    "loglevel": [["2"], ["0"]], "masses": [["22.99", "35.45"]], "magmoms": [["1", "-1"]], "modulation": [["2 2 2, 0 0 0 1 1 0"]],
    "mesh_numbers": [["4", "4", "4"], ["30"]], "moment_order": [["2"], ["0"]], "nac_method": [["wang"]],
    "primitive_axes": [["F"], ["0 1/2 1/2 1/2 0 1/2 1/2 1/2 0"], ["auto"]], "projection_direction": [["1", "1", "0"]], "pdos": [["1, 2"], ["auto"]],
    "qpoints": [["0 0 0 1/2 1/2 0"]], "nac_q_direction": [["1", "0", "0"]], "random_seed": [["7"], ["0"]], "random_displacements": [["4"], ["auto"]],
    "rd_temperature": [["300"], ["0"]], "temperature": [["300"], ["0"]], "sigma": [["0.1"], ["0"]], "sscha_iterations": [["3"], ["0"]],
    "thermal_displacement_matrices_cif": [["300"], ["0"]], "tmax": [["500"], ["0"]], "tmin": [["100"], ["0"]], "tstep": [["25"]],
    "symmetry_tolerance": [["1e-3"]], "mlp_params": [["ntrain=10"]], "anime": [["1", "5", "20"]],
}
EXCLUDED = {"help": "argparse built-in", "filename": "positional configuration file / yaml name", "conf_filename": "phonopy-load --config (file route itself)",
            "verbose": "log level only", "quiet": "log level only", "loglevel": "log level only (not a settings tag)"}


def _parser(load):
    from vtk import build

    if build.REPO not in sys.path:
        sys.path.insert(0, build.REPO)
    from phonopy.cui.phonopy_argparse import get_parser

    old = sys.argv
    sys.argv = ["phonopy"]
    try:
        p, _ = get_parser(load_phonopy_yaml=load)
    finally:
        sys.argv = old
    return p


def option_table(load):
    p = _parser(load)
    out = []
    for a in p._actions:
        if a.dest in EXCLUDED or not a.option_strings:
            continue
        kind = type(a).__name__
        if kind in ("_StoreTrueAction", "_StoreFalseAction"):
            out.append((a.dest, a.option_strings[-1], [None], kind))
        elif a.dest in VALUES:
            out.append((a.dest, a.option_strings[-1], VALUES[a.dest], kind))
        else:
            out.append((a.dest, a.option_strings[-1], "MISSING", kind))
    return out


def plan(tier, seed):
    groups = []
    nopt = 0
    for load in (False, True):
        tab = option_table(load)
        g = []
        for dest, opt, vals, kind in tab:
            if vals == "MISSING":
                g.append({"kind": "table-incomplete", "load": load, "dest": dest, "opt": opt})
                continue
            for v in vals:
                g.append({"kind": "option", "load": load, "dest": dest, "opt": opt, "val": v})
                nopt += 1
        for k in range(0, len(g), 40):
            groups.append(g[k:k + 40])
        # pairs (interaction bound 2): first value of each option
        singles = [(d, o, (v[0] if v != "MISSING" else None)) for d, o, v, kd in tab if v != "MISSING"]
        pairs = [{"kind": "pair", "load": load, "a": list(a), "b": list(b)} for a, b in itertools.combinations(singles, 2)]
        if tier == "quick":
            pairs = pairs[::7]
        for k in range(0, len(pairs), 150):
            groups.append(pairs[k:k + 150])
    wf = []
    for mode in ("disp", "fsets", "fz", "mesh", "band", "qpoints", "dos", "pdos", "thermal", "tdisp", "writefc", "nac", "load", "mass"):
        for var in range({"mass": 2, "disp": 4, "mesh": 6, "band": 5, "qpoints": 2, "dos": 5, "pdos": 3, "thermal": 5, "tdisp": 5, "writefc": 4, "nac": 3, "fsets": 2, "fz": 1, "load": 8}[mode]):
            wf.append({"kind": "workflow", "mode": mode, "var": var})
            wf.append({"kind": "workflow", "mode": mode, "var": var, "sys": "tri"})
    for var in range(32):
        wf.append({"kind": "workflow", "mode": "pahist", "var": var})
    for k in range(0, len(wf), 4):
        groups.append(wf[k:k + 4])
    meta = {"alphabet": {"options_per_command": len(option_table(False)), "option_value_cases": nopt, "excluded": EXCLUDED, "workflow_cases": len(wf)},
            "bound": "all options x representative values; option pairs (every 7th pair in the quick tier, all in thorough); workflow modes x variations", "exhaustive": tier != "quick",
            "not_covered": ["plot options (matplotlib output)", "symfc/alm/pypolymlp calculators (not installed)", "--band auto (seekpath not installed)"]}
    return groups, meta


def settings_from(load, argv=None, conf_text=None):
    """PhonopySettings._v through the option route or the configuration-file route (same parser call as main())."""
    from phonopy.cui.settings import PhonopyConfParser

    p = _parser(load)
    ctrl = {"fc_symmetry": load, "is_nac": load} if load else None
    if conf_text is not None:
        with tempfile.NamedTemporaryFile("w", suffix=".conf", delete=False) as f:
            f.write(conf_text)
            fn = f.name
        try:
            args = p.parse_args(argv or [])  # a configuration file and options together, as in `phonopy run.conf --gc`
            cp = PhonopyConfParser(filename=fn, args=args, default_settings=ctrl)
        finally:
            os.unlink(fn)
    else:
        args = p.parse_args(argv)
        cp = PhonopyConfParser(args=args, default_settings=ctrl)
    return cp


def norm(v):
    if isinstance(v, np.ndarray):
        return ("nd", v.shape, tuple(np.round(v.astype(float), 12).ravel().tolist()) if v.dtype.kind in "fiu" else tuple(v.ravel().tolist()))
    if isinstance(v, (list, tuple)):
        return tuple(norm(x) for x in v)
    if isinstance(v, float):
        return round(v, 12)
    if isinstance(v, dict):
        return tuple(sorted((k, norm(x)) for k, x in v.items()))
    return v


def diff_settings(a, b):
    va, vb = a.settings._v, b.settings._v
    out = []
    for k in sorted(set(va) | set(vb)):
        if norm(va.get(k)) != norm(vb.get(k)):
            out.append((k, va.get(k), vb.get(k)))
    return out


_learn_cache = {}


def fmt(v):
    return " ".join(str(x) for x in v) if isinstance(v, (list, tuple)) else str(v)


def learn_tags(load, opt, val):
    key = (load, opt, tuple(val) if val is not None else None)
    if key in _learn_cache:
        return _learn_cache[key]
    r = _learn_tags(load, opt, val)
    _learn_cache[key] = r
    return r


def _learn_tags(load, opt, val):
    base = settings_from(load, [])
    argv = [opt] + (val if val is not None else [])
    cp = settings_from(load, argv)
    tags = {}
    for k, v in cp.confs.items():
        if k not in base.confs or base.confs[k] != v:
            tags[k] = v
    return cp, tags


def conf_value(val, learnt):
    """Text a user would put after 'TAG =': the same words as on the command line; booleans as .TRUE./.FALSE."""
    if val is None:
        return str(learnt).upper() if str(learnt).lower() in (".true.", ".false.") else str(learnt)
    return " ".join(val)


def run_option(case):
    load = case["load"]
    cmd = "phonopy-load" if load else "phonopy"
    try:
        cp_opt, tags = learn_tags(load, case["opt"], case["val"])
    except SystemExit:
        return dict(ok=False, sig="C18/settings/option-rejected/%s" % case["dest"], msg="%s %s %s: argparse rejected the documented form" % (cmd, case["opt"], case["val"]))
    except Exception as e:
        return dict(ok=False, sig="C18/settings/option-raised/%s" % case["dest"], msg="%s %s %s: %s: %s" % (cmd, case["opt"], case["val"], type(e).__name__, str(e)[:150]))
    nontriv = bool(case["val"] in (["0"],) or len(tags) > 1)
    if not tags:
        # the option did not reach the settings layer: find the tag with the first (non-zero) representative value
        first = VALUES.get(case["dest"], [None])[0]
        if case["val"] is not None and first != case["val"]:
            try:
                _, tags0 = learn_tags(load, case["opt"], first)
            except Exception:
                tags0 = {}
            if tags0:
                tag = sorted(tags0)[0]
                cp_file = settings_from(load, conf_text="%s = %s\n" % (tag.upper(), " ".join(case["val"])))
                d = diff_settings(cp_opt, cp_file)
                if d:
                    return dict(ok=False, sig="C18/settings/option-value-dropped/%s" % case["dest"], nontrivial=True,
                                msg="%s %s %s is silently ignored while the tag %s = %s is honoured: %s" % (cmd, case["opt"], " ".join(case["val"]), tag.upper(), " ".join(case["val"]), d[:3]))
        return dict(ok=True, nontrivial=False, transitions=1, outcome="ok:no-tag")
    text = "".join("%s = %s\n" % (k.upper(), conf_value(case["val"], v) if len(tags) == 1 else fmt(v)) for k, v in sorted(tags.items()))
    try:
        cp_file = settings_from(load, conf_text=text)
    except Exception as e:
        return dict(ok=False, sig="C18/settings/tag-raised/%s" % case["dest"], nontrivial=nontriv, msg="%s: configuration file %r: %s: %s" % (cmd, text, type(e).__name__, str(e)[:150]))
    d = diff_settings(cp_opt, cp_file)
    if d:
        return dict(ok=False, sig="C18/settings/option-vs-tag/%s" % case["dest"], nontrivial=nontriv,
                    msg="%s %s %s and the configuration file %r give different settings: %s" % (cmd, case["opt"], case["val"], text, d[:3]))
    return dict(ok=True, nontrivial=nontriv, transitions=2, outcome="ok:option")


def run_pair(case):
    load = case["load"]
    (da, oa, va), (db, ob, vb) = case["a"], case["b"]
    argv = [oa] + (va or []) + [ob] + (vb or [])
    try:
        cp_opt = settings_from(load, argv)
        _, ta = learn_tags(load, oa, va)
        _, tb = learn_tags(load, ob, vb)
    except (SystemExit, Exception) as e:
        return dict(ok=True, skipped="option pair rejected by the parser")
    if set(ta) & set(tb):
        return dict(ok=True, skipped="the two options feed the same tag (conflicting pair)")
    tags = dict(ta)
    tags.update(tb)
    if not tags:
        return dict(ok=True, nontrivial=False, transitions=1, outcome="ok:no-tag")
    text = "".join("%s = %s\n" % (k.upper(), fmt(v)) for k, v in sorted(tags.items()))
    try:
        cp_file = settings_from(load, conf_text=text)
    except Exception as e:
        return dict(ok=True, skipped="combination rejected by the configuration parser")
    d = diff_settings(cp_opt, cp_file)
    if d:
        return dict(ok=False, sig="C18/settings/pair/%s+%s" % (da, db), nontrivial=True,
                    msg="%s: options %s together and the equivalent configuration file %r give different settings: %s" % ("phonopy-load" if load else "phonopy", argv, text, d[:3]))
    # mixed: one of the two in the configuration file, the other one as an option on the same command line
    ntr = 2
    for (tfile, oopt, vopt, which) in ((ta, ob, vb, "%s in the file, %s as option" % (da, db)), (tb, oa, va, "%s in the file, %s as option" % (db, da))):
        if not tfile:
            continue
        text1 = "".join("%s = %s\n" % (k.upper(), fmt(v)) for k, v in sorted(tfile.items()))
        try:
            cp_mix = settings_from(load, argv=[oopt] + (vopt or []), conf_text=text1)
        except (SystemExit, Exception):
            continue
        ntr += 1
        d = diff_settings(cp_opt, cp_mix)
        if d:
            return dict(ok=False, sig="C18/settings/mixed/%s+%s" % (da, db), nontrivial=True,
                        msg="%s: %s (file %r, options %s) gives other settings than both as options: %s" % ("phonopy-load" if load else "phonopy", which, text1, [oopt] + (vopt or []), d[:3]))
    return dict(ok=True, nontrivial=True, transitions=ntr, outcome="ok:pair")


# ---------------------------------------------------------------- workflows

POSCAR = """NaCl
 1.0
 5.6 0 0
 0 5.6 0
 0 0 5.6
 Na Cl
 4 4
Direct
 0 0 0
 0 .5 .5
 .5 0 .5
 .5 .5 0
 .5 .5 .5
 .5 0 0
 0 .5 0
 0 0 .5
"""
BORN = """14.399652
 2.43 0 0 0 2.43 0 0 0 2.43
 1.08 0 0 0 1.08 0 0 0 1.08
-1.08 0 0 0 -1.08 0 0 0 -1.08
"""


POSCAR_TRI = """tri
 1.0
 3.2 0.0 0.0
 0.4 3.8 0.0
 0.7 -0.5 4.3
 Na Cl O
 1 1 1
Direct
 0.03 0.01 0.02
 0.43 0.57 0.61
 0.81 0.29 0.33
"""
BORN_TRI = """14.399652
 2.4 0.2 0.1 0.2 3.0 0.3 0.1 0.3 2.7
 1.2 0.1 0 0.1 1.0 0.05 0 0.05 1.4
 -0.7 0 0.1 0 -0.9 0 0.1 0 -0.5
 -0.5 -0.1 -0.1 -0.1 -0.1 -0.05 -0.1 -0.05 -0.9
"""
# two systems: the cubic one every example uses, and a triclinic one without any symmetry (non-symmetric lattice matrix,
# general sites: every tensor component is different)
SYS = {"NaCl": {"poscar": POSCAR, "born": BORN, "dim": ["2", "2", "2"], "S": [2, 2, 2], "pa": "F"},
       "tri": {"poscar": POSCAR_TRI, "born": BORN_TRI, "dim": ["2", "2", "1"], "S": [2, 2, 1], "pa": None}}
_cur = {"sys": "NaCl"}


def BASE():
    d = SYS[_cur["sys"]]
    return ["--dim"] + d["dim"] + (["--pa", d["pa"]] if d["pa"] else []) + ["-c", "POSCAR"]


def LIBKW():
    d = SYS[_cur["sys"]]
    return {"supercell_matrix": np.diag(d["S"]), "primitive_matrix": d["pa"]}


def cli(argv, load=False):
    from phonopy.cui.phonopy_script import main

    old = sys.argv
    sys.argv = ["phonopy-load" if load else "phonopy"] + argv
    buf = io.StringIO()
    rc = 0
    try:
        with contextlib.redirect_stdout(buf):
            if load:
                main(fc_symmetry=True, is_nac=True, load_phonopy_yaml=True)
            else:
                main()
    except SystemExit as e:
        rc = e.code if isinstance(e.code, int) else (0 if e.code is None else 1)
    finally:
        sys.argv = old
    return rc, buf.getvalue()


def prepare(td, seed, residual=False):
    """POSCAR, displacements via the CLI, synthetic harmonic forces; returns (library Phonopy with the same inputs, forces)"""
    import phonopy
    from vtk.ref import springs as SP

    open(os.path.join(td, "POSCAR"), "w").write(SYS[_cur["sys"]]["poscar"])
    rc, out = cli(["-d"] + BASE())
    if rc != 0 or not os.path.exists("phonopy_disp.yaml"):
        raise RuntimeError("phonopy -d failed: " + out[-300:])
    ph = phx.quiet(phonopy.load, "phonopy_disp.yaml", produce_fc=False, log_level=0)
    sc = ph.supercell
    fc = SP.folded_fc(np.asarray(sc.cell), sc.positions, sc.symbols, SP.SpringModel(rc=4.5, seed=seed))
    F = SP.forces_for_dataset(fc, ph.dataset)
    return ph, fc, F


def write_force_sets(ph, F):
    from phonopy.file_IO import write_FORCE_SETS

    ds = ph.dataset
    for d, f in zip(ds["first_atoms"], F):
        d["forces"] = f
    write_FORCE_SETS(ds)


def lib(seed, nac=False, **kw):
    """The library calls that correspond to `phonopy --dim 2 2 2 --pa F -c POSCAR ...` on the same input files."""
    from phonopy import Phonopy
    from phonopy.file_IO import parse_BORN, parse_FORCE_SETS
    from phonopy.interface.vasp import read_vasp

    ph = phx.quiet(Phonopy, read_vasp("POSCAR"), **LIBKW())
    ph.dataset = parse_FORCE_SETS()
    phx.quiet(ph.produce_force_constants, calculate_full_force_constants=kw.get("full_fc", False), show_drift=False)
    if kw.get("symmetrize_fc"):
        phx.quiet(ph.symmetrize_force_constants, show_drift=False)
    if nac:
        ph.nac_params = parse_BORN(ph.primitive, filename="BORN")
    return ph


def run_workflow(case, seed):
    import h5py
    import yaml

    mode, var = case["mode"], case["var"]
    _cur["sys"] = case.get("sys", "NaCl")
    tag = "%s/%d/%s" % (mode, var, _cur["sys"])
    cwd = os.getcwd()
    td = tempfile.mkdtemp(prefix="c18_")

    def fail(kind, msg):
        return dict(ok=False, sig="C18/workflow/%s/%s" % (mode, kind), nontrivial=True, msg="%s: %s" % (tag, msg))

    os.chdir(td)
    try:
        if mode == "disp":
            import phonopy
            from phonopy import Phonopy
            from phonopy.interface.vasp import read_vasp

            open("POSCAR", "w").write(SYS[_cur["sys"]]["poscar"])
            opts = [[], ["--pm"], ["--nodiag"], ["--amplitude", "0.03"]][var]
            kw = [{}, {"is_plusminus": True}, {"is_diagonal": False}, {"distance": 0.03}][var]
            rc, out = cli(["-d"] + BASE() + opts)
            if rc != 0:
                return fail("cli-failed", out[-200:])
            got = phx.quiet(phonopy.load, "phonopy_disp.yaml", produce_fc=False, log_level=0)
            ref = phx.quiet(Phonopy, read_vasp("POSCAR"), **LIBKW())
            phx.quiet(ref.generate_displacements, **kw)
            a, b = got.dataset["first_atoms"], ref.dataset["first_atoms"]
            if len(a) != len(b) or any(x["number"] != y["number"] or np.abs(np.asarray(x["displacement"]) - y["displacement"]).max() > 1e-14 for x, y in zip(a, b)):
                return fail("displacements", "phonopy_disp.yaml differs from generate_displacements(%s)" % kw)
            n = len([f for f in os.listdir(".") if f.startswith("POSCAR-")])
            if n != len(b):
                return fail("supercell-files", "%d POSCAR-xxx files for %d displacements" % (n, len(b)))
            sc1 = read_vasp("POSCAR-001")
            want = ref.supercells_with_displacements[0]
            d = sc1.scaled_positions - want.scaled_positions
            if sc1.symbols != want.symbols or np.abs(d - np.rint(d)).max() > 1e-12:
                return fail("supercell-files", "POSCAR-001 is not the first displaced supercell")
            return dict(ok=True, nontrivial=var > 0, transitions=2, outcome="ok:disp")
        ph, fc, F = prepare(td, seed)
        if mode in ("fsets", "fz"):
            from vtk.alphabet import crystals  # noqa
            from checks.c17 import VASPRUN, stable_grouping
            from phonopy.file_IO import parse_FORCE_SETS

            scs = ph.supercells_with_displacements
            res = 0.01 * np.random.default_rng(3).normal(size=F[0].shape) if mode == "fz" else 0.0
            files = []
            cells = ([ph.supercell] if mode == "fz" else []) + list(scs)
            forces = ([res] if mode == "fz" else []) + [f + res for f in F]
            for k, (c, f) in enumerate(zip(cells, forces)):
                txt = VASPRUN % dict(n=len(c), atoms="".join("   <rc><c>%s</c><c>1</c></rc>\n" % s for s in c.symbols),
                                     basis="".join("    <v> %.12f %.12f %.12f </v>\n" % tuple(v) for v in c.cell),
                                     pos="".join("    <v> %.12f %.12f %.12f </v>\n" % tuple(p) for p in c.scaled_positions),
                                     forces="".join("   <v> %.12f %.12f %.12f </v>\n" % tuple(x) for x in (f if np.ndim(f) else np.zeros((len(c), 3)))))
                fn = "vasprun-%03d.xml" % k
                open(fn, "w").write(txt)
                files.append(fn)
            if mode == "fsets" and var == 1:
                text = "CREATE_FORCE_SETS = " + " ".join(files) + "\n"
                open("fs.conf", "w").write(text)
                rc, out = cli(["fs.conf"])
            else:
                rc, out = cli(["--fz" if mode == "fz" else "-f"] + files)
            if rc != 0 or not os.path.exists("FORCE_SETS"):
                return fail("cli-failed", out[-300:])
            ds = parse_FORCE_SETS()
            for k, d in enumerate(ds["first_atoms"]):
                if np.abs(np.asarray(d["forces"]) - F[k]).max() > 1e-9:
                    return fail("forces", "FORCE_SETS forces of displacement %d differ from the calculator forces%s by %.3g" % (k + 1, " minus the residual forces" if mode == "fz" else "", np.abs(np.asarray(d["forces"]) - F[k]).max()))
            return dict(ok=True, nontrivial=True, transitions=2, outcome="ok:" + mode)
        write_force_sets(ph, F)
        base = BASE()
        if mode == "mesh":
            opts, kw = [([], {}), (["--gc"], {"is_gamma_center": True}), (["--nomeshsym"], {"is_mesh_symmetry": False}), (["--eigvecs"], {"with_eigenvectors": True}),
                        (["--gv"], {"with_group_velocities": True}), (["--mesh-format", "hdf5"], {})][var]
            rc, out = cli(base + ["--mesh", "4", "4", "3"] + opts)
            if rc != 0:
                return fail("cli-failed", out[-300:])
            lp = lib(seed)
            lp.run_mesh([4, 4, 3], **kw)
            md = lp.get_mesh_dict()
            if var == 5:
                with h5py.File("mesh.hdf5") as h:
                    fq, w = h["frequency"][:], h["weight"][:]
            else:
                y = yaml.safe_load(open("mesh.yaml"))
                fq = np.array([[b["frequency"] for b in p["band"]] for p in y["phonon"]])
                w = np.array([p["weight"] for p in y["phonon"]])
            if fq.shape != md["frequencies"].shape or np.abs(fq - md["frequencies"]).max() > 0.6e-10 or not np.array_equal(w, md["weights"]):
                return fail("mesh-file", "mesh output differs from run_mesh(%s)" % kw)
            if var == 4:
                gv = np.array([[b["group_velocity"] for b in p["band"]] for p in y["phonon"]])
                if np.abs(gv - md["group_velocities"]).max() > 0.6e-7:
                    return fail("mesh-gv", "group velocities in mesh.yaml differ from the library")
            return dict(ok=True, nontrivial=var > 0, transitions=2, outcome="ok:mesh")
        if mode == "band":
            opts = [[], ["--band-points", "7"], ["--band-connection"], ["--band-const-interval", "--band-points", "21"], []][var]
            if var >= 3:
                # several connected segments of very different lengths; with a constant interval the number of points per
                # segment follows the segment lengths in reciprocal space
                segs = [[[0, 0, 0], [0.5, 0, 0], [0.5, 0.5, 0], [0.5, 0.5, 0.5], [0, 0, 0.5]], [[0, 0.5, 0], [0, 0, 0]]]
                band = "0 0 0 1/2 0 0 1/2 1/2 0 1/2 1/2 1/2 0 0 1/2, 0 1/2 0 0 0 0"
                if var == 4:
                    open("b.conf", "w").write("BAND = %s\nBAND_CONST_INTERVAL = .TRUE.\nBAND_POINTS = 21\n" % band)
                    rc, out = cli(base + ["b.conf"])
                else:
                    rc, out = cli(base + ["--band", band] + opts)
            else:
                rc, out = cli(base + ["--band", "0 0 0 1/2 0 0, 1/2 1/2 0 0 0 0"] + opts)
            if rc != 0:
                return fail("cli-failed", out[-300:])
            from phonopy.phonon.band_structure import get_band_qpoints

            npts = 7 if var == 1 else 51
            if var >= 3:
                lp = lib(seed)
                # reciprocal basis vectors as columns, from the primitive cell the library object holds
                paths = get_band_qpoints(segs, npoints=21, rec_lattice=np.linalg.inv(np.asarray(lp.primitive.cell)))
                y = yaml.safe_load(open("band.yaml"))
                if list(y["segment_nqpoint"]) != [len(p) for p in paths]:
                    return fail("band-const-interval", "band.yaml has %s q-points per segment, get_band_qpoints(rec_lattice=inv(primitive cell)) gives %s" % (list(y["segment_nqpoint"]), [len(p) for p in paths]))
                # and the counts follow the reciprocal-space lengths (independent of get_band_qpoints)
                G = np.linalg.inv(np.asarray(lp.primitive.cell))
                lens = [np.linalg.norm(G @ (np.array(b_) - np.array(a_))) for sg in segs for a_, b_ in zip(sg[:-1], sg[1:])]
                cnt = [len(p) for p in paths]
                longest = int(np.argmax(lens))
                for L_, n_ in zip(lens, cnt):
                    if abs((n_ - 1) - (cnt[longest] - 1) * L_ / lens[longest]) > 1.0:
                        return fail("band-const-interval-lengths", "q-points per segment %s do not follow the segment lengths %s" % (cnt, np.round(lens, 3).tolist()))
            else:
                paths = get_band_qpoints([[[0, 0, 0], [0.5, 0, 0]], [[0.5, 0.5, 0], [0, 0, 0]]], npoints=npts)
            lp = lib(seed)
            lp.run_band_structure([np.array(p_) for p_ in paths], is_band_connection=(var == 2))
            fm = np.concatenate(lp.get_band_structure_dict()["frequencies"])
            y = yaml.safe_load(open("band.yaml"))
            fy = np.array([[b["frequency"] for b in p["band"]] for p in y["phonon"]])
            if fy.shape != fm.shape or np.abs(fy - fm).max() > 0.6e-10:
                return fail("band-file", "band.yaml differs from run_band_structure")
            return dict(ok=True, nontrivial=var > 0, transitions=2, outcome="ok:band")
        if mode == "qpoints":
            opts = [[], ["--writedm"]][var]
            rc, out = cli(base + ["--qpoints", "0 0 0 1/2 1/2 0 0.1 0.2 0.3"] + opts)
            if rc != 0:
                return fail("cli-failed", out[-300:])
            lp = lib(seed)
            lp.run_qpoints([[0, 0, 0], [0.5, 0.5, 0], [0.1, 0.2, 0.3]], with_dynamical_matrices=(var == 1))
            d = lp.get_qpoints_dict()
            y = yaml.safe_load(open("qpoints.yaml"))
            fy = np.array([[b["frequency"] for b in p["band"]] for p in y["phonon"]])
            if np.abs(fy - d["frequencies"]).max() > 0.6e-10:
                return fail("qpoints-file", "qpoints.yaml frequencies differ from run_qpoints")
            if var == 1:
                for k, p in enumerate(y["phonon"]):
                    Dy = np.array(p["dynamical_matrix"])
                    Dy = Dy[:, 0::2] + 1j * Dy[:, 1::2]
                    if np.abs(Dy - d["dynamical_matrices"][k]).max() > 0.75e-10:
                        return fail("qpoints-dm", "dynamical matrix in qpoints.yaml differs from the library")
            return dict(ok=True, nontrivial=var > 0, transitions=2, outcome="ok:qpoints")
        if mode in ("dos", "pdos"):
            if mode == "dos":
                opts, kw = [([], {}), (["--sigma", "0.1"], {"sigma": 0.1}), (["--fmin", "0", "--fmax", "8", "--fpitch", "0.2"], {"freq_min": 0.0, "freq_max": 8.0, "freq_pitch": 0.2}),
                            (["--fmin", "-1", "--fmax", "8", "--fpitch", "0.2", "--sigma", "0.2"], {"freq_min": -1.0, "freq_max": 8.0, "freq_pitch": 0.2, "sigma": 0.2}),
                            (["--fmin", "0", "--sigma", "0.15"], {"freq_min": 0.0, "sigma": 0.15})][var]
                rc, out = cli(base + ["--mesh", "4", "4", "4", "--dos"] + opts)
                if rc != 0:
                    return fail("cli-failed", out[-300:])
                lp = lib(seed)
                lp.run_mesh([4, 4, 4])
                lp.run_total_dos(**kw)
                d = lp.get_total_dos_dict()
                arr = np.loadtxt("total_dos.dat")
                if arr.shape[0] != len(d["frequency_points"]) or np.abs(arr[:, 0] - d["frequency_points"]).max() > 0.6e-10 or np.abs(arr[:, 1] - d["total_dos"]).max() > 0.6e-10:
                    return fail("dos-file", "total_dos.dat differs from run_total_dos(%s): %d rows vs %d, first frequency %r vs %r" % (kw, arr.shape[0], len(d["frequency_points"]), arr[0, 0], d["frequency_points"][0]))
            else:
                opts, kw = [(["--pdos", "1, 2"], {}), (["--pdos", "1, 2", "--xyz-projection"], {"xyz_projection": True}), (["--pdos", "1, 2", "--pd", "1", "1", "0"], {"direction": [1, 1, 0]})][var]
                rc, out = cli(base + ["--mesh", "3", "3", "3"] + opts)
                if rc != 0:
                    return fail("cli-failed", out[-300:])
                lp = lib(seed)
                lp.run_mesh([3, 3, 3], with_eigenvectors=True, is_mesh_symmetry=False)
                lp.run_projected_dos(**kw)
                d = lp.get_projected_dos_dict()
                arr = np.loadtxt("projected_dos.dat")
                if arr.shape[0] != len(d["frequency_points"]) or np.abs(arr[:, 1:].T - d["projected_dos"]).max() > 0.6e-10:
                    return fail("pdos-file", "projected_dos.dat differs from run_projected_dos(%s)" % kw)
            return dict(ok=True, nontrivial=var > 0, transitions=2, outcome="ok:" + mode)
        if mode == "thermal":
            opts, kw = [([], {}), (["--tmin", "100", "--tmax", "500", "--tstep", "50"], {"t_min": 100, "t_max": 500, "t_step": 50}), (["--cutoff-freq", "1.0"], {"cutoff_frequency": 1.0}),
                        (["--pr"], {"pretend_real": True}), (["--tmax", "300", "--tmin", "0", "--classical"], {"t_max": 300, "t_min": 0, "classical": True})][var]
            rc, out = cli(base + ["--mesh", "4", "4", "4", "-t"] + opts)
            if rc != 0:
                return fail("cli-failed", out[-300:])
            lp = lib(seed)
            lp.run_mesh([4, 4, 4])
            lp.run_thermal_properties(**kw)
            d = lp.get_thermal_properties_dict()
            y = yaml.safe_load(open("thermal_properties.yaml"))
            T = np.array([p["temperature"] for p in y["thermal_properties"]])
            if len(T) != len(d["temperatures"]) or np.abs(T - d["temperatures"]).max() > 1e-6:
                return fail("thermal-temperatures", "temperatures %s... vs library %s..." % (T[:3].tolist(), d["temperatures"][:3].tolist()))
            for key, k2 in (("free_energy", "free_energy"), ("entropy", "entropy"), ("heat_capacity", "heat_capacity")):
                v = np.array([p[key] for p in y["thermal_properties"]])
                ref = np.nan_to_num(np.array(d[k2]))
                if np.abs(v - ref).max() > 0.6e-7:
                    return fail("thermal-values", "%s in thermal_properties.yaml differs from run_thermal_properties(%s) by %.3g" % (key, kw, np.abs(v - ref).max()))
            return dict(ok=True, nontrivial=var > 0, transitions=2, outcome="ok:thermal")
        if mode == "tdisp":
            opts = [["--td"], ["--tdm"], ["--td", "--pd", "1", "0", "0"], ["--td", "--gc"], ["--tdm", "--gc"]][var]
            # variations 3,4: an even mesh with forced Gamma-centring (it decides which q-points are sampled)
            M3 = [4, 4, 2] if var >= 3 else [3, 3, 3]
            mkw = {"is_gamma_center": True} if var >= 3 else {}
            rc, out = cli(base + ["--mesh"] + [str(x) for x in M3] + ["--tmax", "300", "--tstep", "100", "--fmin", "0.1"] + opts)
            if rc != 0:
                return fail("cli-failed", out[-300:])
            lp = lib(seed)
            if var in (1, 4):
                lp.run_mesh(M3, with_eigenvectors=True, is_mesh_symmetry=False, **mkw)
                lp.run_thermal_displacement_matrices(t_min=0, t_max=300, t_step=100, freq_min=0.1)
                ref = lp.get_thermal_displacement_matrices_dict()["thermal_displacement_matrices"]
                y = yaml.safe_load(open("thermal_displacement_matrices.yaml"))
                got = np.array([p["displacement_matrices"] for p in y["thermal_displacement_matrices"]])
                want = np.array([[[m[0, 0], m[1, 1], m[2, 2], m[1, 2], m[0, 2], m[0, 1]] for m in t] for t in ref])
                if got.shape != want.shape or np.abs(got - want).max() > 0.6e-5:  # written with 5 decimals
                    return fail("tdm-file", "thermal_displacement_matrices.yaml differs from the library")
            else:
                lp.run_mesh(M3, with_eigenvectors=True, is_mesh_symmetry=False, **mkw)
                lp.run_thermal_displacements(t_min=0, t_max=300, t_step=100, freq_min=0.1, direction=([1, 0, 0] if var == 2 else None))
                ref = np.array(lp.get_thermal_displacements_dict()["thermal_displacements"])
                y = yaml.safe_load(open("thermal_displacements.yaml"))
                got = np.array([np.ravel(p["displacements"]) for p in y["thermal_displacements"]])
                if got.shape != ref.shape or np.abs(got - ref).max() > 0.6e-7:
                    return fail("td-file", "thermal_displacements.yaml differs from the library")
            return dict(ok=True, nontrivial=True, transitions=2, outcome="ok:tdisp")
        if mode == "writefc":
            from phonopy.file_IO import parse_FORCE_CONSTANTS, read_force_constants_hdf5

            opts = [["--writefc"], ["--writefc", "--writefc-format", "hdf5"], ["--writefc", "--full-fc"], ["--writefc", "--fc-symmetry"]][var]
            rc, out = cli(base + opts)
            if rc != 0:
                return fail("cli-failed", out[-300:])
            lp = lib(seed, symmetrize_fc=(var == 3), full_fc=(var == 2))
            ref = np.array(lp.force_constants)
            got = read_force_constants_hdf5("force_constants.hdf5") if var == 1 else parse_FORCE_CONSTANTS()
            if got.shape != ref.shape:
                p2s = np.asarray(lp.primitive.p2s_map)
                ref = ref[p2s] if got.shape[0] != got.shape[1] else ref
            if got.shape != ref.shape or np.abs(got - ref).max() > 0.6e-15 + 1e-13:
                return fail("fc-file", "written force constants differ from produce_force_constants by %.3g" % (np.abs(got - ref).max() if got.shape == ref.shape else -1))
            # read them back through the CLI: phonons equal
            rc, out = cli(base + ["--readfc"] + (["--readfc-format", "hdf5"] if var == 1 else []) + ["--qpoints", "0.1 0.2 0.3"])
            if rc != 0:
                return fail("readfc-failed", out[-300:])
            lp.run_qpoints([[0.1, 0.2, 0.3]])
            y = yaml.safe_load(open("qpoints.yaml"))
            fy = np.array([[b["frequency"] for b in p["band"]] for p in y["phonon"]])
            if np.abs(fy - lp.get_qpoints_dict()["frequencies"]).max() > 1e-9:
                return fail("readfc-phonons", "phonons after --readfc differ from the library")
            return dict(ok=True, nontrivial=True, transitions=3, outcome="ok:writefc")
        if mode == "nac":
            open("BORN", "w").write(SYS[_cur["sys"]]["born"])
            opts, q, qd = [([], [[0.1, 0.2, 0.3], [0, 0, 0]], None), (["--nac-method", "wang"], [[0.1, 0.2, 0.3]], None), (["--q-direction", "1", "0", "0"], [[0, 0, 0]], [1, 0, 0])][var]
            rc, out = cli(base + ["--nac", "--qpoints", " ".join("%g %g %g" % tuple(x) for x in q)] + opts)
            if rc != 0:
                return fail("cli-failed", out[-300:])
            lp = lib(seed, nac=True)
            if var == 1:
                npar = lp.nac_params
                npar["method"] = "wang"
                lp.nac_params = npar
            lp.run_qpoints(q, nac_q_direction=qd)
            y = yaml.safe_load(open("qpoints.yaml"))
            fy = np.array([[b["frequency"] for b in p["band"]] for p in y["phonon"]])
            if np.abs(fy - lp.get_qpoints_dict()["frequencies"]).max() > 1e-9:
                return fail("nac-phonons", "qpoints.yaml with --nac %s differs from the library" % opts)
            return dict(ok=True, nontrivial=True, transitions=2, outcome="ok:nac")
        if mode == "mass":
            # masses given on the command line / in the configuration file: outputs of the run, and the summary file reloaded
            import phonopy

            npr = len(lib(seed).primitive)
            mvals = [30.5, 41.25, 17.0][:npr]
            mtxt = " ".join("%g" % m_ for m_ in mvals)
            if var == 0:
                rc, out = cli(base + ["--mass", mtxt, "--qpoints", "0.1 0.2 0.3 0.5 0 0"])
            else:
                open("m.conf", "w").write("MASS = %s\nQPOINTS = 0.1 0.2 0.3 0.5 0 0\n" % mtxt)
                rc, out = cli(base + ["m.conf"])
            if rc != 0 or not os.path.exists("phonopy.yaml"):
                return fail("cli-failed", out[-300:])
            lp = lib(seed)
            lp.masses = mvals
            lp.run_qpoints([[0.1, 0.2, 0.3], [0.5, 0, 0]])
            want = lp.get_qpoints_dict()["frequencies"]
            y = yaml.safe_load(open("qpoints.yaml"))
            got = np.array([[b["frequency"] for b in p_["band"]] for p_ in y["phonon"]])
            if np.abs(got - want).max() > 1e-9:
                return fail("mass/run", "qpoints.yaml of a run with masses %s differs from the library with the same masses by %.3g THz" % (mtxt, np.abs(got - want).max()))
            re_ = phx.quiet(phonopy.load, "phonopy.yaml", fc_calculator="traditional", symmetrize_fc=False, log_level=0)
            re_.run_qpoints([[0.1, 0.2, 0.3], [0.5, 0, 0]])
            e = np.abs(re_.get_qpoints_dict()["frequencies"] - want).max()
            if e > 1e-6 * np.abs(want).max():
                return fail("mass/reload", "phonopy.yaml of a run with masses %s reloads to phonons differing by %.3g THz (masses in the file: %s)" % (mtxt, e, np.asarray(re_.masses).round(3).tolist()))
            return dict(ok=True, nontrivial=True, transitions=3, outcome="ok:mass")
        if mode == "pahist":
            # two-step history: the displacement run records one primitive matrix in its yaml file, the later run asks for
            # another one (option or tag): the later setting decides, as it does for phonopy.load(primitive_matrix=...)
            import phonopy

            PAS = [None, "P", "F", "auto"]
            pa1, pa2, route = PAS[var // 8], PAS[(var // 2) % 4], var % 2
            os.remove("FORCE_SETS")
            os.remove("phonopy_disp.yaml")
            rc, out = cli(["-d", "--dim", "2", "2", "2", "-c", "POSCAR"] + (["--pa", pa1] if pa1 else []))
            if rc != 0:
                return fail("cli-failed", out[-300:])
            ph1 = phx.quiet(phonopy.load, "phonopy_disp.yaml", produce_fc=False, log_level=0)
            from vtk.ref import springs as SP

            sc = ph1.supercell
            fc1 = SP.folded_fc(np.asarray(sc.cell), sc.positions, sc.symbols, SP.SpringModel(rc=4.5, seed=seed))
            write_force_sets(ph1, SP.forces_for_dataset(fc1, ph1.dataset))
            os.rename("phonopy_disp.yaml", "run.yaml")
            if route == 0:
                rc, out = cli(["run.yaml", "--fc-calc", "traditional", "--qpoints", "0.1 0.2 0.3"] + (["--pa", pa2] if pa2 else []), load=True)
            else:
                open("pa.conf", "w").write("QPOINTS = 0.1 0.2 0.3\nFC_CALCULATOR = traditional\n" + ("PRIMITIVE_AXES = %s\n" % pa2 if pa2 else ""))
                rc, out = cli(["run.yaml", "--config", "pa.conf"], load=True)
            if rc != 0:
                return fail("pahist/cli-failed", out[-300:])
            y = yaml.safe_load(open("qpoints.yaml"))
            got = np.array([[b["frequency"] for b in p_["band"]] for p_ in y["phonon"]])
            kw = {"primitive_matrix": pa2} if pa2 else {}
            ref = phx.quiet(phonopy.load, "run.yaml", fc_calculator="traditional", log_level=0, **kw)
            ref.run_qpoints([[0.1, 0.2, 0.3]])
            want = ref.get_qpoints_dict()["frequencies"]
            if got.shape != want.shape:
                return fail("pahist/primitive-cell", "yaml written with --pa %s, later run with %s %s: %d bands, phonopy.load(primitive_matrix=%r) has %d" % (
                    pa1, "--pa" if route == 0 else "PRIMITIVE_AXES =", pa2, got.shape[1], pa2, want.shape[1]))
            if np.abs(got - want).max() > 1e-6 * np.abs(want).max():
                return fail("pahist/phonons", "yaml written with --pa %s, later run with pa %s: frequencies differ from phonopy.load by %.3g" % (pa1, pa2, np.abs(got - want).max()))
            return dict(ok=True, nontrivial=bool(pa1 != pa2), transitions=3, outcome="ok:pahist")
        if mode == "load" and var in (4, 5):
            # a calculation in another calculator's units, recorded only in the yaml file: phonopy-load writes force constants,
            # reads them back, and must still give the phonons of the library on the same data
            import phonopy
            from phonopy.interface.calculator import get_default_physical_units

            calc = ["qe", "siesta"][var - 4]
            u = get_default_physical_units(calc)
            lp0 = lib(seed, full_fc=True)
            from phonopy import Phonopy
            from phonopy.structure.atoms import PhonopyAtoms

            uc = lp0.unitcell
            phc = phx.quiet(Phonopy, PhonopyAtoms(symbols=uc.symbols, cell=np.asarray(uc.cell) / u["distance_to_A"], scaled_positions=uc.scaled_positions),
                            calculator=calc, factor=u["factor"], **LIBKW())
            phc.force_constants = np.array(lp0.force_constants) * 0.37  # arbitrary numbers in the calculator's unit
            phc.save("run.yaml", settings={"force_constants": True})
            phc.run_qpoints([[0.1, 0.2, 0.3]])
            want = phc.get_qpoints_dict()["frequencies"]
            rc, out = cli(["run.yaml", "--writefc", "--writefc-format", "hdf5"], load=True)
            if rc != 0 or not os.path.exists("force_constants.hdf5"):
                return fail("phonopy-load-failed", out[-300:])
            os.rename("run.yaml", "run2.yaml")
            import yaml as _y

            y2 = _y.safe_load(open("run2.yaml"))
            y2.pop("force_constants", None)
            open("nofc.yaml", "w").write(_y.safe_dump(y2))
            rc, out = cli(["nofc.yaml", "--readfc", "--readfc-format", "hdf5", "--qpoints", "0.1 0.2 0.3"], load=True)
            if rc != 0:
                return fail("phonopy-load-readfc-failed", out[-300:])
            y = yaml.safe_load(open("qpoints.yaml"))
            got = np.array([[b["frequency"] for b in p["band"]] for p in y["phonon"]])
            if np.abs(got - want).max() > 1e-6 * np.abs(want).max():
                return fail("writefc-readfc-units/%s" % calc, "force constants written and read back by phonopy-load for a %s calculation give frequencies %s instead of %s" % (calc, got[0, -2:].round(4).tolist(), want[0, -2:].round(4).tolist()))
            return dict(ok=True, nontrivial=True, transitions=3, outcome="ok:load:units")
        if mode == "load":
            import phonopy

            open("BORN", "w").write(SYS[_cur["sys"]]["born"])
            if var >= 6:
                # two-run history: the first run records one NAC method in phonopy.yaml, the reload asks for the other one
                m1, m2 = (("wang", "gonze"), ("gonze", "wang"))[var - 6]
                rc, out = cli(base + ["--nac", "--nac-method", m1, "--qpoints", "0.1 0.2 0.3", "--include-all"])
                if rc != 0 or not os.path.exists("phonopy.yaml"):
                    return fail("cli-failed", out[-300:])
                os.rename("phonopy.yaml", "run.yaml")
                rc, out = cli(["run.yaml", "--fc-calc", "traditional", "--nac-method", m2, "--qpoints", "0.1 0.2 0.3 0.3 0.1 0.45"], load=True)
                if rc != 0:
                    return fail("phonopy-load-failed", out[-300:])
                y = yaml.safe_load(open("qpoints.yaml"))
                got = np.array([[b["frequency"] for b in p["band"]] for p in y["phonon"]])
                res = {}
                for m in (m1, m2):
                    lpm = lib(seed, nac=True, symmetrize_fc=True)
                    npm = dict(lpm.nac_params)
                    npm["method"] = m
                    lpm.nac_params = npm
                    lpm.run_qpoints([[0.1, 0.2, 0.3], [0.3, 0.1, 0.45]])
                    res[m] = lpm.get_qpoints_dict()["frequencies"]
                distinct = bool(np.abs(res[m1] - res[m2]).max() > 1e-4 * np.abs(res[m2]).max())
                if np.abs(got - res[m2]).max() > 1e-6 * np.abs(res[m2]).max():
                    return fail("nac-method-after-reload", "phonopy-load --nac-method %s on a summary file written by a run with NAC_METHOD = %s gives other frequencies than the library with method %s (max dev %.3g THz%s)" % (
                        m2, m1, m2, np.abs(got - res[m2]).max(), "; equal to method %s" % m1 if np.abs(got - res[m1]).max() < 1e-6 else ""))
                return dict(ok=True, nontrivial=distinct, transitions=3, outcome="ok:load:nac-method")
            # the summary file of a run reloads to the calculation that was run; phonopy-load reproduces it
            rc, out = cli(base + ["--nac", "--mesh", "3", "3", "3"] + (["--include-all"] if var % 2 else []))
            if rc != 0 or not os.path.exists("phonopy.yaml"):
                return fail("cli-failed", out[-300:])
            lp = lib(seed, nac=True)
            lp.run_qpoints([[0.1, 0.2, 0.3], [0.0, 0.0, 0.01]])
            want = lp.get_qpoints_dict()["frequencies"]
            if var < 2:
                re = phx.quiet(phonopy.load, "phonopy.yaml", fc_calculator="traditional", symmetrize_fc=False, log_level=0)
                re.run_qpoints([[0.1, 0.2, 0.3], [0.0, 0.0, 0.01]])
                got = re.get_qpoints_dict()["frequencies"]
            else:
                os.rename("phonopy.yaml", "run.yaml")
                rc, out = cli(["run.yaml", "--fc-calc", "traditional", "--qpoints", "0.1 0.2 0.3 0 0 0.01"] + ([] if var == 2 else ["--mesh", "3", "3", "3"]), load=True)
                if rc != 0:
                    return fail("phonopy-load-failed", out[-300:])
                y = yaml.safe_load(open("qpoints.yaml"))
                got = np.array([[b["frequency"] for b in p["band"]] for p in y["phonon"]])
                lp2 = lib(seed, nac=True, symmetrize_fc=True)
                lp2.run_qpoints([[0.1, 0.2, 0.3], [0.0, 0.0, 0.01]])
                want = lp2.get_qpoints_dict()["frequencies"]
            if np.abs(got - want).max() > 1e-6 * np.abs(want).max():
                return fail("reload-phonons", "phonopy.yaml written by the run reloads to different phonons (max dev %.3g THz)" % np.abs(got - want).max())
            return dict(ok=True, nontrivial=True, transitions=3, outcome="ok:load")
        raise ValueError(mode)
    except Exception as e:
        import traceback

        return dict(ok=False, sig="C18/workflow/%s/raised" % mode, nontrivial=True, msg="%s: %s: %s" % (tag, type(e).__name__, traceback.format_exc()[-400:]))
    finally:
        os.chdir(cwd)
        import shutil

        shutil.rmtree(td, ignore_errors=True)


def run_group(cases, seed):
    out = []
    for c in cases:
        if c["kind"] == "table-incomplete":
            out.append(dict(ok=False, sig="C18/option-table-incomplete/%s" % c["dest"], msg="option %s (dest %s) of %s is neither in the value table nor excluded with a reason" % (c["opt"], c["dest"], "phonopy-load" if c["load"] else "phonopy")))
        elif c["kind"] == "option":
            out.append(run_option(c))
        elif c["kind"] == "pair":
            out.append(run_pair(c))
        else:
            out.append(run_workflow(c, seed))
    return out
