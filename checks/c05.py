"""C05 — shortest-vector tables are the complete set of minimum-image vectors.

Exhaustive walk over a family of lattices (lower-triangular bases with diagonal in {1,2,4} and half-integer shears,
needle/plate scalings, unimodular re-bases so that the input is not reduced) x positions on a quarter grid (exact
ties) and generic ones, dense and sparse storage, plus the tables of real Primitive objects.  Oracle: brute-force
image enumeration inside a box that provably contains every minimiser (vtk.ref.lattice.min_images bound).
"""
from __future__ import annotations

import itertools

import numpy as np

from vtk.ref import lattice as RL

ID = "C05"
VARIANT = "omp"
TECHNIQUE = "bounded-exhaustive enumeration of a lattice family x position grid on the real shortest-vector search; brute-force minimum-image oracle with a proven search box"
RULE = ("case = (lattice, storage) with all 134 (pos_to,pos_from) pairs, or (crystal,S,P,storage) through Primitive; non-trivial pair = "
        ">= 2 tied minimum images or a minimiser outside {-1,0,1}^3 in the input basis (counted per pair in counters)")
ASSUMPTIONS = ["ties are exact for rational inputs; pairs with a non-minimal image within (1e-9, 50*symprec) of the minimum are skipped and counted",
               "numpy; vtk/ref/lattice.py"]
BUDGET = {"quick": 900, "thorough": 3400}
SYMPREC = 1e-5

REBASES = [np.eye(3, dtype=int), np.array([[1, 1, 0], [0, 1, 0], [0, 0, 1]]), np.array([[1, 0, 0], [2, 1, 0], [-1, 1, 1]]),
           np.array([[0, 1, 0], [0, 0, 1], [1, 0, 0]]), np.array([[1, -1, 2], [0, 1, -1], [0, 0, 1]]), np.array([[2, 1, 0], [1, 1, 0], [0, 3, 1]])]
SCALINGS = [(1, 1, 1), (1, 1, 6), (1, 4, 16)]


def lattices(tier):
    diag = (1.0, 2.0, 4.0)
    off = (-1.5, -0.5, 0.0, 1.0) if tier == "quick" else tuple(np.arange(-1.5, 1.51, 0.5))
    scal = SCALINGS[:1] + (SCALINGS[1:] if tier != "quick" else [])
    reb = [0, 4] if tier == "quick" else range(len(REBASES))
    for d in itertools.product(diag, repeat=3):
        for o in itertools.product(off, repeat=3):
            for sc in scal:
                for r in reb:
                    yield {"diag": list(d), "off": list(o), "scale": list(sc), "rebase": int(r)}
    if tier == "quick":
        # needle / plate shapes on a thinner shear grid
        for d in itertools.product(diag, repeat=3):
            for o in itertools.product((-1.5, 0.5), repeat=3):
                for sc in SCALINGS[1:]:
                    yield {"diag": list(d), "off": list(o), "scale": list(sc), "rebase": 2}


def basis(lat):
    d, o, sc = lat["diag"], lat["off"], lat["scale"]
    L = np.array([[d[0], 0, 0], [o[0] * d[0], d[1], 0], [o[1] * d[0], o[2] * d[1], d[2]]], float) * np.array(sc, float)[None, :] * 1.7
    return REBASES[lat["rebase"]] @ L


def positions(seed, L=None, noisy=False, symprec=None):
    symprec = symprec or SYMPREC
    g = np.random.default_rng(31 + seed)
    pos_to = [np.array(t) / 4.0 for t in itertools.product(range(4), repeat=3)] + [g.uniform(0, 1, 3).round(6) for _ in range(3)]
    pos_to = np.array(pos_to)
    pos_to[5] += [1, -2, 3]  # outside [0,1)
    pos_to[40] -= [2, 0, 1]
    pos_from = np.array([[0.0, 0, 0], g.uniform(0, 1, 3).round(6)])
    if noisy == "ladder":
        # noise of the order of symprec itself: formerly tied images now differ by 0 .. ~2.5 symprec in length, so that the
        # rule "keep exactly those within symprec of the minimum" is exercised on both sides of the threshold
        Li = np.linalg.inv(L)
        pos_to = pos_to + (g.uniform(-1, 1, pos_to.shape) * 0.6 * symprec) @ Li
        pos_from = pos_from + (g.uniform(-1, 1, pos_from.shape) * 0.6 * symprec) @ Li
    elif noisy:
        # positions symmetric only up to noise far below symprec: tied images then differ by ~1e-7 in length and
        # must all be kept ("within the symmetry tolerance")
        Li = np.linalg.inv(L)
        pos_to = pos_to + (g.uniform(-1, 1, pos_to.shape) * 1.5e-7) @ Li
        pos_from = pos_from + (g.uniform(-1, 1, pos_from.shape) * 1.5e-7) @ Li
    return pos_to, pos_from


def plan(tier, seed):
    from checks.c02 import prefixes

    lats = list(lattices(tier))
    groups = []
    chunk = 40
    for k in range(0, len(lats), chunk):
        groups.append([{"kind": "lattice", "lat": l, "storage": st, "noisy": nz} for l in lats[k:k + chunk] for st in ("dense", "sparse")
                       for nz in (False, True, "ladder")] +
                      # a caller-chosen tolerance (coordinates of limited precision): the rule follows it
                      [{"kind": "lattice", "lat": l, "storage": st, "noisy": "ladder", "symprec": 1e-3} for l in lats[k:k + chunk:4] for st in ("dense", "sparse")])
    prim = []
    for pre in prefixes(tier, seed):
        for st in ("dense", "sparse"):
            prim.append(dict(pre, kind="primitive", storage=st))
    for k in range(0, len(prim), 30):
        groups.append(prim[k:k + 30])
    meta = {"alphabet": {"lattices": len(lats), "positions_to": 67, "positions_from": 2, "storage": 2, "primitive_prefixes": len(prim) // 2},
            "bound": "complete product of the lattice family and the position grid", "exhaustive": True,
            "not_covered": ["lattices outside the family (irrational shears)", "near-ties within 50*symprec (skipped, counted)"]}
    return groups, meta


def oracle_pairs(L, pos_to, pos_from):
    """For every pair (i,j): all lattice images d+n of the separation inside a box that provably contains every
    minimiser, with their lengths.  The enumeration is done in a size-reduced basis Lr = U L (own reduction, not
    phonopy's): any basis is valid for the bound |x_i| <= rho |b_i|, a reduced one just keeps the box small."""
    Lr, U = RL.pair_reduce(L)
    Ui = np.rint(np.linalg.inv(U)).astype(int)
    d = pos_to[:, None, :] - pos_from[None, :, :]          # (nt, nf, 3) in the input basis
    dr = d @ Ui                                            # same points in the reduced basis: x = d L = (d U^-1) Lr
    d0 = dr - np.rint(dr)
    B = RL.reciprocal(Lr)
    bn = np.linalg.norm(B, axis=1)
    rho = np.linalg.norm(d0 @ Lr, axis=-1).max()
    rng = [np.arange(-int(np.ceil(rho * bn[i] + 0.5)) - 1, int(np.ceil(rho * bn[i] + 0.5)) + 2) for i in range(3)]
    box = np.stack(np.meshgrid(*rng, indexing="ij"), axis=-1).reshape(-1, 3)
    img_r = d0[:, :, None, :] + box[None, None, :, :]      # images in the reduced basis
    ln = np.linalg.norm(img_r @ Lr, axis=-1)               # (nt, nf, nbox)
    m = ln.min(axis=-1)
    img = img_r @ U                                        # back to the input basis (fractional)
    return d, d0, box, img, ln, m


def judge_pairs(L, pos_to, pos_from, get_vecs, symprec=SYMPREC, tie_tol=None, window=False):
    """get_vecs(i,j) -> (k,3) array of stored vectors in the fractional coordinates of L.  Returns (failure|None, counters)."""
    d, d0, box, img, ln, m = oracle_pairs(L, pos_to, pos_from)
    scale = np.linalg.norm(L, axis=1).max()
    cnt = {"pairs": 0, "pairs_with_ties": 0, "pairs_min_outside_27": 0, "pairs_skipped_near_tie": 0}
    maxmult = 0
    for i in range(len(pos_to)):
        for j in range(len(pos_from)):
            l = ln[i, j]
            mm = m[i, j]
            if window:
                # the documented rule itself: an image belongs to the set iff its length exceeds the minimum by less than symprec;
                # only images within 2% of the threshold are left undecided
                exact = l - mm < 0.98 * symprec
                near = (l - mm < 1.02 * symprec) & ~exact
            else:
                exact = l - mm < (1e-9 * scale if tie_tol is None else tie_tol)
                near = (l - mm < 50 * symprec) & ~exact
            if near.any():
                cnt["pairs_skipped_near_tie"] += 1
                continue
            cnt["pairs"] += 1
            M = img[i, j][exact]
            stored = np.asarray(get_vecs(i, j), float).reshape(-1, 3)
            if len(M) >= 2:
                cnt["pairs_with_ties"] += 1
            maxmult = max(maxmult, len(M))
            # minimiser outside {-1,0,1}^3 relative to the raw separation in the INPUT basis
            nM = np.rint(M - d[i, j]).astype(int)
            if (np.abs(nM) > 1).any():
                cnt["pairs_min_outside_27"] += 1
            # every stored vector must be a lattice image of the separation and minimal
            if len(stored) == 0:
                return ("missing", "pair (%d,%d): no vector stored" % (i, j)), cnt
            nn = stored - d[i, j]
            if np.abs(nn - np.rint(nn)).max() > 1e-7:
                return ("not-an-image", "pair (%d,%d): stored vector %s is not separation + lattice vector" % (i, j, stored[0].round(5).tolist())), cnt
            sl = np.linalg.norm(stored @ L, axis=1)
            if (sl - mm > (1.02 * symprec if window else (1e-7 * scale if tie_tol is None else 2 * tie_tol))).any():
                return ("too-long", "pair (%d,%d): stored length %.8f > true minimum %.8f" % (i, j, sl.max(), mm)), cnt
            if False:
                pass
            keyS = sorted(map(tuple, np.rint(nn).astype(int).tolist()))
            keyM = sorted(map(tuple, np.rint(M - d[i, j]).astype(int).tolist()))
            if len(set(keyS)) != len(keyS):
                return ("duplicate", "pair (%d,%d): duplicate vectors" % (i, j)), cnt
            if keyS != keyM:
                return ("tie-missing" if len(keyS) < len(keyM) else "set-mismatch",
                        "pair (%d,%d): stored %d vectors, true minimum set has %d" % (i, j, len(keyS), len(keyM))), cnt
    cnt["_maxmult"] = maxmult
    return None, cnt


def run_lattice(case, seed):
    from phonopy.structure.cells import dense_to_sparse_svecs, get_smallest_vectors, sparse_to_dense_svecs

    L = basis(case["lat"])
    noisy = case.get("noisy")
    sp = case.get("symprec", SYMPREC)
    pos_to, pos_from = positions(seed, L, noisy, sp)
    dense = case["storage"] == "dense"
    tag = case["storage"] + ("/ties-spread-around-symprec" if noisy == "ladder" else "/noisy-ties" if noisy else "") + ("/symprec=%g" % sp if sp != SYMPREC else "")
    try:
        sv, mu = get_smallest_vectors(L, pos_to, pos_from, store_dense_svecs=dense, symprec=sp)
    except Exception as e:
        return dict(ok=False, sig="C05/raised/" + tag, msg="%s: %s" % (type(e).__name__, str(e)[:200]))
    if dense:
        def get(i, j):
            n, a = mu[i, j]
            return sv[a:a + n]
        # multiplicity bookkeeping: addresses are the running sum
        flat = mu.reshape(-1, 2)
        if (np.cumsum(flat[:, 0]) - flat[:, 0] != flat[:, 1]).any() or flat[:, 0].sum() != len(sv):
            return dict(ok=False, sig="C05/dense-address-table", msg="multiplicity addresses are not the running sum of counts")
    else:
        def get(i, j):
            return sv[i, j, :mu[i, j]]
    bad, cnt = judge_pairs(L, pos_to, pos_from, get, symprec=sp, tie_tol=(1e-6 if noisy else None), window=(noisy == "ladder"))
    mm_ = cnt.pop("_maxmult", 0)
    if bad:
        return dict(ok=False, sig="C05/%s/%s" % (bad[0], tag), msg="lattice %s %s: %s" % (case["lat"], tag, bad[1]), count=cnt)
    # storage conversion round trip
    if dense:
        s2, m2 = dense_to_sparse_svecs(sv, mu)
        d2, dm2 = sparse_to_dense_svecs(s2, m2)
    else:
        d2, dm2 = sparse_to_dense_svecs(sv, mu)
        s2, m2 = dense_to_sparse_svecs(d2, dm2)
        if not (np.array_equal(m2, mu) and all(np.array_equal(s2[i, j, :mu[i, j]], sv[i, j, :mu[i, j]]) for i in range(len(pos_to)) for j in range(len(pos_from)))):
            return dict(ok=False, sig="C05/conversion-roundtrip/sparse", msg="sparse->dense->sparse changes the table", count=cnt)
    if dense and not (np.array_equal(d2, sv) and np.array_equal(dm2, mu)):
        return dict(ok=False, sig="C05/conversion-roundtrip/dense", msg="dense->sparse->dense changes the table", count=cnt)
    # a dense table is (count, address) rows into a shared pool of vectors: the same pool with the rows re-ordered (atoms listed in
    # another order, or a sub-selection) is a valid dense table too, and converts pair by pair
    dsv, dmu = (sv, mu) if dense else (d2, dm2)
    for nm, rows in (("rows-reversed", np.arange(dmu.shape[0])[::-1]), ("every-other-row", np.arange(dmu.shape[0])[::2]), ("columns-reversed", None)):
        mu_r = np.array(dmu[rows] if rows is not None else dmu[:, ::-1], dtype=dmu.dtype, order="C")
        s3, m3 = dense_to_sparse_svecs(dsv, mu_r)
        for i in range(mu_r.shape[0]):
            for j in range(mu_r.shape[1]):
                cnt_, adr = int(mu_r[i, j, 0]), int(mu_r[i, j, 1])
                if m3[i, j] != cnt_ or not np.array_equal(s3[i, j, :cnt_], dsv[adr:adr + cnt_]):
                    return dict(ok=False, sig="C05/conversion/dense-table-" + nm, count=cnt,
                                msg="lattice %s: dense_to_sparse_svecs of a dense table with %s puts other vectors than those at the pair's address into pair (%d,%d)" % (case["lat"], nm, i, j))
    return dict(ok=True, nontrivial=bool(cnt["pairs_with_ties"] > 0 or cnt["pairs_min_outside_27"] > 0), transitions=1, count=cnt,
                outcome="ok:maxmult=%d" % mm_)


def run_primitive(case, seed):
    from vtk import phx

    c = phx.xtal(case["xtal"], case["variant"], seed)
    dense = case["storage"] == "dense"
    try:
        ph = phx.make_phonopy(c, case["S"], case["pm"], store_dense_svecs=dense)
    except Exception as e:
        if case["pm"] == "auto":
            return dict(ok=True, skipped="auto primitive matrix guess raised")
        return dict(ok=False, sig="C05/constructor-raised", msg=str(e)[:200])
    pr, sc = ph.primitive, ph.supercell
    sv, mu = pr.get_smallest_vectors()
    Ls = np.asarray(sc.cell)
    Lp = np.asarray(pr.cell)
    pos_s = sc.scaled_positions
    pos_p = pos_s[np.asarray(pr.p2s_map)]
    T = Lp @ np.linalg.inv(Ls)  # primitive frac -> supercell frac: v_s = v_p @ T
    if dense:
        def get(i, j):
            n, a = mu[i, j]
            return np.asarray(sv[a:a + n]) @ T
    else:
        def get(i, j):
            return np.asarray(sv[i, j, :mu[i, j]]) @ T
    bad, cnt = judge_pairs(Ls, pos_s, pos_p, get, symprec=1e-5)
    mm_ = cnt.pop("_maxmult", 0)
    if bad:
        return dict(ok=False, sig="C05/primitive/%s/%s" % (bad[0], case["storage"]),
                    msg="%s %s S=%s pm=%s %s: %s" % (case["xtal"], case["variant"], case["S"], case["pm"], case["storage"], bad[1]), count=cnt)
    return dict(ok=True, nontrivial=bool(cnt["pairs_with_ties"] > 0), transitions=1, count=cnt, outcome="ok:primitive:maxmult=%d" % mm_)


def run_group(cases, seed):
    return [run_lattice(c, seed) if c["kind"] == "lattice" else run_primitive(c, seed) for c in cases]
