"""C07 — force-constant symmetrisers are projections; compact and full layouts agree.

Product walk over (crystal variant, S, P) x fc kind x iteration level x routine.  Oracles: fixed point on
symmetric input, output invariances (sum rules, index permutation, space group by brute-force operation
application), idempotence, and the exact differential  expand(compact_routine(c)) == full_routine(expand(c)).
"""
from __future__ import annotations

import itertools
import json
import sys

import numpy as np

from vtk import phx
from vtk.alphabet import crystals as X
from vtk.alphabet import smat as SM
from vtk.ref import springs as SP

ID = "C07"
VARIANT = "omp"
TECHNIQUE = "bounded-exhaustive product walk over (cell, supercell parity pattern, fc kind, level, routine); differential compact-vs-full oracle and invariance/idempotence oracles on the real routines"
RULE = ("case = (crystal variant, S, P, fc kind, level, routine); non-trivial = supercell has more than one primitive cell "
        "(so compact != full) or the input is not already symmetric")
ASSUMPTIONS = ["Primitive.atomic_permutations are the pure translations (verified by C04)",
               "vtk/ref/springs.py provides fully symmetric force constants", "tolerance 1e-11 relative to max|fc|"]
BUDGET = {"quick": 900, "thorough": 3400}
TOL = 1e-10

LEVELS_Q = [0, 1, 2, 3, 8]
LEVELS_T = [0, 1, 2, 3, 4, 8, 16, 32]
KINDS = ["sym", "periodic-random", "sym+drift", "sym+antisym", "random-full"]
ROUTINES = ["full/C", "full/Py-fallback", "compact/C", "api/full", "api/compact", "spacegroup/api", "transpose-compact", "layout-roundtrip", "steps/Py"]

S_SET = [np.eye(3, dtype=int).tolist(), [[2, 0, 0], [0, 1, 0], [0, 0, 1]], [[2, 0, 0], [0, 2, 0], [0, 0, 1]], [[2, 0, 0], [0, 2, 0], [0, 0, 2]],
         [[3, 0, 0], [0, 1, 0], [0, 0, 1]], [[1, 0, 0], [0, 3, 0], [0, 0, 2]], [[3, 0, 0], [0, 3, 0], [0, 0, 1]],
         [[1, 1, 0], [-1, 1, 0], [0, 0, 1]], [[2, 1, 0], [0, 1, 0], [0, 0, 1]], [[1, 1, 0], [0, 2, 0], [-1, 0, 2]],
         [[-1, 1, 1], [1, -1, 1], [1, 1, -1]], [[4, 0, 0], [0, 1, 0], [0, 0, 1]], [[2, 0, 0], [0, 3, 0], [0, 0, 1]]]


def selfcheck():
    SP.selfcheck()


def prefixes(tier):
    cr = X.by_name()
    names = X.QUICK if tier == "quick" else [c["name"] for c in X.all_crystals()]
    maxat = 32 if tier == "quick" else 64
    for name in names:
        c = cr[name]
        for var in (["as-is"] if tier == "quick" else ["as-is", "reversed", "shifted"]):
            if var == "reversed" and len(c["symbols"]) == 1:
                continue
            for S in S_SET:
                if abs(SM.det3(S)) * len(c["symbols"]) > maxat:
                    continue
                for pm in ["none"] + c["centring"]:
                    yield {"xtal": name, "variant": var, "S": S, "pm": pm}


def plan(tier, seed):
    levels = LEVELS_Q if tier == "quick" else LEVELS_T
    groups = []
    for pre in prefixes(tier):
        g = []
        for kind, rout in itertools.product(KINDS, ROUTINES):
            lv = levels if rout in ("full/C", "full/Py-fallback", "compact/C", "api/full", "api/compact") else [0]
            if kind == "random-full" and rout in ("compact/C", "api/compact", "transpose-compact", "layout-roundtrip"):
                continue
            for level in lv:
                if level == 0 and rout in ("full/Py-fallback", "api/full", "api/compact"):
                    continue
                g.append(dict(pre, kind=kind, routine=rout, level=level))
        groups.append(g)
    groups.sort(key=lambda g: -abs(SM.det3(g[0]["S"])) * len(X.by_name()[g[0]["xtal"]]["symbols"]))
    # function-level routines with a re-ordered primitive cell (p2s_map not ascending)
    for name in (["NaCl-prim-2", "hcp-2", "wurtzite-4"] if tier == "quick" else ["NaCl-prim-2", "hcp-2", "wurtzite-4", "rutile-6", "tri-P1-3", "CsCl-2", "mono-P21-2"]):
        for S in S_SET:
            if abs(SM.det3(S)) * len(X.by_name()[name]["symbols"]) > 32 or abs(SM.det3(S)) == 1:
                continue
            g = []
            for kind, rout in itertools.product(("sym", "periodic-random", "sym+drift", "sym+antisym"), ("compact/C", "transpose-compact", "layout-roundtrip")):
                for level in ([1, 2] if rout == "compact/C" else [0]):
                    g.append({"xtal": name, "variant": "as-is", "S": S, "pm": "none", "kind": kind, "routine": rout, "level": level, "reorder": True})
            groups.append(g)
    # coordinates good to ~1e-4 Angstrom with symprec=1e-3: the operations are found with the caller's tolerance, so every
    # routine that maps atoms by them has to use the same tolerance
    for name in (["NaCl-prim-2", "hcp-2", "wurtzite-4", "tri-P1-3"] if tier == "quick" else [c["name"] for c in X.all_crystals()]):
        for S in S_SET[:4] if tier == "quick" else S_SET:
            if abs(SM.det3(S)) * len(X.by_name()[name]["symbols"]) > 32:
                continue
            groups.append([{"xtal": name, "variant": "noisy4", "S": S, "pm": "none", "kind": kind, "routine": rout, "level": 1}
                           for kind in ("periodic-random", "sym+antisym", "random-full") for rout in ("spacegroup/api", "api/full", "api/compact")
                           if not (kind == "random-full" and rout == "api/compact")])
    # process history: two different supercells of the same size one after the other in one process (anything cached per
    # process must be keyed by everything it depends on).  All ordered pairs of equal-volume supercells of S_SET.
    nseq = 0
    cr = X.by_name()
    for name in (["NaCl-prim-2", "hcp-2", "tri-P1-3"] if tier == "quick" else ["NaCl-prim-2", "hcp-2", "tri-P1-3", "sc-1", "rutile-6", "CsCl-2", "mono-P21-2"]):
        for Sa, Sb in itertools.permutations(S_SET, 2):
            da, db = abs(SM.det3(Sa)), abs(SM.det3(Sb))
            if da != db or da == 1 or da * len(cr[name]["symbols"]) > 32:
                continue
            g = []
            for S in (Sa, Sb):
                for kind, rout in itertools.product(("sym+drift", "periodic-random"), ("compact/C", "api/compact", "full/C")):
                    g.append({"xtal": name, "variant": "as-is", "S": S, "pm": "none", "kind": kind, "routine": rout, "level": 1, "after": Sa if S is Sb else None})
            groups.append(g)
            nseq += 1
    meta = {"alphabet": {"prefixes": len(groups) - nseq, "supercell_sequences": nseq, "kinds": KINDS, "routines": ROUTINES, "levels": levels, "S": len(S_SET)},
            "bound": "complete product", "exhaustive": True, "not_covered": ["supercells above the atom cap"]}
    return groups, meta


def expand(ph, compact):
    """Oracle-side compact -> full by the pure translations: full[t(i), t(j)] = compact[k, j] for i = p2s[k]."""
    perms = np.asarray(ph.primitive.atomic_permutations)
    p2s = np.asarray(ph.primitive.p2s_map)
    ns = compact.shape[1]
    full = np.full((ns, ns, 3, 3), np.nan)
    for r in perms:
        for k, i in enumerate(p2s):
            full[r[i], r] = compact[k]
    assert not np.isnan(full).any()
    return full


def sg_violation(ph, fc):
    """max | R fc[i,j] R^T - fc[g(i),g(j)] | over all supercell space-group operations (brute-force atom mapping)."""
    sc = ph.supercell
    L = np.asarray(sc.cell)
    pos = sc.scaled_positions
    ops = ph.symmetry.symmetry_operations
    worst = 0.0
    for W, t in zip(ops["rotations"], ops["translations"]):
        img = pos @ np.asarray(W, float).T + t
        d = img[:, None, :] - pos[None, :, :]
        d -= np.rint(d)
        dist = np.linalg.norm(d @ L, axis=2)
        g = dist.argmin(axis=1)
        if dist[np.arange(len(pos)), g].max() > 1e-3:
            return np.inf
        Rc = L.T @ np.asarray(W, float) @ np.linalg.inv(L.T)
        rot = np.einsum("ab,ijbc,dc->ijad", Rc, fc, Rc)
        worst = max(worst, float(np.abs(rot - fc[g][:, g]).max()))
    return worst


def make_input(ph, kind, seed, st):
    if "sym" not in st:
        st["sym"] = phx.supercell_fc(ph, phx.model_for(ph, "nn", seed))
    sym = st["sym"]
    ns = len(sym)
    rng = np.random.default_rng(99 + seed)
    npr = len(ph.primitive)
    if kind == "sym":
        return sym.copy()
    if kind == "periodic-random":
        return expand(ph, rng.normal(size=(npr, ns, 3, 3)))
    if kind == "sym+drift":
        return sym + expand(ph, 0.01 * rng.normal(size=(npr, 1, 3, 3)) * np.ones((npr, ns, 3, 3)))
    if kind == "sym+antisym":
        a = expand(ph, 0.05 * rng.normal(size=(npr, ns, 3, 3)))
        return sym + (a - a.transpose(1, 0, 3, 2)) / 2
    if kind == "random-full":
        return rng.normal(size=(ns, ns, 3, 3))
    raise ValueError(kind)


class _HideExt:
    def __enter__(self):
        self.saved = sys.modules.get("phonopy._phonopy")
        sys.modules["phonopy._phonopy"] = None
        import phonopy

        self.attr = getattr(phonopy, "_phonopy", None)
        if hasattr(phonopy, "_phonopy"):
            delattr(phonopy, "_phonopy")

    def __exit__(self, *a):
        import phonopy

        sys.modules["phonopy._phonopy"] = self.saved
        if self.attr is not None:
            phonopy._phonopy = self.attr


def run_group(cases, seed):
    out = []
    key = None
    for case in cases:
        k = (case["xtal"], case["variant"], json.dumps(case["S"]), case["pm"], bool(case.get("reorder")))
        if k != key:
            key = k
            c = phx.xtal(case["xtal"], case["variant"], seed)
            st = {}
        out.append(run_case(case, seed, c, st))
    return out


def run_case(case, seed, c, st):
    import phonopy.harmonic.force_constants as FC

    tag = "%s/%s%s" % (case["routine"], case["kind"], "/reordered-primitive" if case.get("reorder") else "")
    if "ph" not in st:
        try:
            st["ph"] = phx.make_phonopy(c, case["S"], case["pm"], **({"symprec": c["symprec"]} if "symprec" in c else {}))
            if case.get("reorder") and len(st["ph"].primitive) > 1:
                # a primitive cell whose atoms are listed in another order than they appear in the supercell (the public
                # positions_to_reorder argument of get_primitive): p2s_map is then not ascending
                from phonopy.structure.cells import get_primitive

                ph_ = st["ph"]
                want = ph_.primitive.scaled_positions[::-1].copy()
                Ls, Lp = np.asarray(ph_.supercell.cell), np.asarray(ph_.primitive.cell)
                tm = (Lp @ np.linalg.inv(Ls)).T
                ph_._primitive = get_primitive(ph_.supercell, tm, symprec=1e-5, positions_to_reorder=want)
                assert list(ph_.primitive.p2s_map) != sorted(ph_.primitive.p2s_map)
        except Exception as e:
            st["ph"] = e
    ph = st["ph"]
    if isinstance(ph, Exception):
        return dict(ok=False, sig="C07/constructor-raised", msg=str(ph)[:200])
    x = make_input(ph, case["kind"], seed, st)
    scale = max(np.abs(x).max(), 1e-9)
    ns, npr = len(ph.supercell), len(ph.primitive)
    p2s = np.asarray(ph.primitive.p2s_map)
    level = case["level"]
    rout = case["routine"]
    periodic = case["kind"] != "random-full"
    trans = 0
    nontriv = bool(ns > npr or case["kind"] != "sym")
    S = np.array(case["S"])
    evenmult = "even" if (abs(SM.det3(S.tolist())) * 0 + 1) and any(int(round(v)) % 2 == 0 for v in np.linalg.svd(S.astype(float), compute_uv=False)) else "odd"
    # discriminating feature for signatures: does some primitive-lattice translation equal its own inverse?
    perms = np.asarray(ph.primitive.atomic_permutations)
    selfinv = any((r[r] == np.arange(ns)).all() and not (r == np.arange(ns)).all() for r in perms)
    feat = "self-inverse-translation=%s" % ("yes" if selfinv else "no")

    def fail(kind, msg, resid=None):
        return dict(ok=False, sig="C07/%s/%s/%s" % (kind, tag, feat), resid=resid, transitions=trans, nontrivial=nontriv,
                    msg="%s %s S=%s pm=%s level=%d %s: %s" % (case["xtal"], case["variant"], case["S"], case["pm"], level, tag, msg))

    def full_C(a):
        a = np.array(a, dtype="double", order="C")
        FC.symmetrize_force_constants(a, level=level)
        return a

    def full_Py(a):
        a = np.array(a, dtype="double", order="C")
        with _HideExt():
            FC.symmetrize_force_constants(a, level=level)
        return a

    def compact_C(cmp_):
        cmp_ = np.array(cmp_, dtype="double", order="C")
        FC.symmetrize_compact_force_constants(cmp_, ph.primitive, level=level)
        return cmp_

    def api(a):
        ph.force_constants = np.array(a, dtype="double", order="C")
        phx.quiet(ph.symmetrize_force_constants, level=level, show_drift=False)
        return np.array(ph.force_constants)

    def invariances(y, what):
        if level == 0 and rout in ("full/C", "compact/C"):
            return None  # level 0 only rebuilds the self term: nothing is imposed on the off-diagonal blocks
        e1 = np.abs(y.sum(axis=1)).max() / scale
        e0 = np.abs(y.sum(axis=0)).max() / scale
        ep = np.abs(y - y.transpose(1, 0, 3, 2)).max() / scale
        if max(e0, e1) > TOL * ns:
            return fail("output-not-translationally-invariant", "%s: drift row %.3g col %.3g" % (what, e1, e0), max(e0, e1))
        if ep > TOL:
            return fail("output-not-permutation-symmetric", "%s: |fc-fc^T|=%.3g" % (what, ep), ep)
        return None

    try:
        if rout in ("full/C", "full/Py-fallback", "api/full"):
            f = {"full/C": full_C, "full/Py-fallback": full_Py, "api/full": api}[rout]
            y = f(x)
            trans += 1
            if case["kind"] == "sym":
                e = np.abs(y - x).max() / scale
                if e > TOL:
                    return fail("fixed-point", "symmetric input changed by %.3g" % e, e)
            if True:
                bad = invariances(y, "output")
                if bad:
                    return bad
                y2 = f(y)
                trans += 1
                e = np.abs(y2 - y).max() / scale
                if e > TOL:
                    return fail("not-idempotent", "second application changes the result by %.3g" % e, e)
            if rout == "api/full":
                z = full_C(x)
                e = np.abs(z - y).max() / scale
                if e > TOL:
                    return fail("api-vs-function", "Phonopy.symmetrize_force_constants != symmetrize_force_constants by %.3g" % e, e)
            return dict(ok=True, transitions=trans, nontrivial=nontriv, outcome="ok:" + rout)
        if rout in ("compact/C", "api/compact"):
            cx = np.array(x[p2s], dtype="double", order="C")
            f = compact_C if rout == "compact/C" else api
            cy = f(cx)
            trans += 1
            if cy.shape != cx.shape:
                if ns == npr and cy.shape == x.shape:
                    pass
                else:
                    return fail("shape", "compact output shape %s" % (cy.shape,))
            y = expand(ph, cy)
            if case["kind"] == "sym":
                e = np.abs(y - x).max() / scale
                if e > TOL:
                    return fail("fixed-point", "symmetric input changed by %.3g" % e, e)
            bad = invariances(y, "expanded compact output")
            if bad:
                return bad
            z = full_C(x)
            trans += 1
            e = np.abs(z - y).max() / scale
            if e > TOL:
                return fail("compact-vs-full", "expand(compact_routine(c)) differs from full_routine(expand(c)) by %.3g" % e, e)
            cy2 = f(cy)
            trans += 1
            e = np.abs(cy2 - cy).max() / scale
            if e > TOL:
                return fail("not-idempotent", "second application changes the result by %.3g" % e, e)
            return dict(ok=True, transitions=trans, nontrivial=nontriv, outcome="ok:" + rout)
        if rout == "spacegroup/api":
            ph.force_constants = np.array(x, dtype="double", order="C")
            phx.quiet(ph.symmetrize_force_constants_by_space_group, show_drift=False)
            trans += 1
            y = np.array(ph.force_constants)
            if case["kind"] == "sym":
                e = np.abs(y - x).max() / scale
                if e > TOL:
                    return fail("fixed-point", "symmetric input changed by %.3g" % e, e)
            v = sg_violation(ph, y) / scale
            if v > TOL:
                return fail("output-not-spacegroup-invariant", "max |R fc R^T - fc(g i, g j)| = %.3g" % v, v)
            ph.force_constants = y.copy()
            phx.quiet(ph.symmetrize_force_constants_by_space_group, show_drift=False)
            trans += 1
            e = np.abs(np.array(ph.force_constants) - y).max() / scale
            if e > TOL:
                return fail("not-idempotent", "second application changes the result by %.3g" % e, e)
            return dict(ok=True, transitions=trans, nontrivial=nontriv, outcome="ok:" + rout)
        if rout == "steps/Py":
            # the public pure-Python steps the fallback is made of, against their definitions
            a = np.array(x, dtype="double", order="C")
            FC.set_permutation_symmetry(a)
            trans += 1
            e = np.abs(a - (x + x.transpose(1, 0, 3, 2)) / 2).max() / scale
            if e > TOL:
                return fail("py-permutation-step", "set_permutation_symmetry(fc) differs from (fc + fc^T)/2 by %.3g" % e, e)
            a = np.array(x, dtype="double", order="C")
            FC.set_translational_invariance(a)
            trans += 1
            w = x - x.mean(axis=0, keepdims=True)
            w = w - w.mean(axis=1, keepdims=True)
            e = np.abs(a - w).max() / scale
            if e > TOL:
                return fail("py-translation-step", "set_translational_invariance(fc) differs from the mean-subtracted array by %.3g" % e, e)
            return dict(ok=True, transitions=trans, nontrivial=nontriv, outcome="ok:" + rout)
        if rout == "transpose-compact":
            import phonopy._phonopy as phonoc

            pr = ph.primitive
            s2pp, nsym = FC.get_nsym_list_and_s2pp(pr.s2p_map, pr.p2p_map, pr.atomic_permutations)
            cx = np.array(x[p2s], dtype="double", order="C")
            cy = cx.copy()
            phonoc.transpose_compact_fc(cy, pr.atomic_permutations, s2pp, pr.p2s_map, nsym)
            trans += 1
            want = x.transpose(1, 0, 3, 2)[p2s]
            e = np.abs(cy - want).max() / scale
            if e > TOL:
                return fail("transpose-once", "transpose_compact_fc != transpose of the expanded array (%.3g)" % e, e)
            phonoc.transpose_compact_fc(cy, pr.atomic_permutations, s2pp, pr.p2s_map, nsym)
            trans += 1
            e = np.abs(cy - cx).max() / scale
            if e > TOL:
                return fail("transpose-twice", "transposing twice is not the identity (%.3g)" % e, e)
            # drift report must not modify the array
            cz = cx.copy()
            phx.quiet(FC.show_drift_force_constants, cz, primitive=pr)
            if np.abs(cz - cx).max() > 0:
                return fail("show-drift-modifies", "show_drift_force_constants changed the compact array by %.3g" % np.abs(cz - cx).max())
            return dict(ok=True, transitions=trans, nontrivial=nontriv, outcome="ok:" + rout)
        if rout == "layout-roundtrip":
            cx = FC.full_fc_to_compact_fc(ph.primitive, x)
            y = FC.compact_fc_to_full_fc(ph.primitive, cx)
            trans += 2
            e = np.abs(y - x).max() / scale
            if e > TOL:
                return fail("full-compact-full", "full->compact->full changes a periodic array by %.3g" % e, e)
            e = np.abs(y - expand(ph, np.asarray(cx))).max() / scale
            if e > TOL:
                return fail("expand-vs-oracle", "compact_fc_to_full_fc differs from the translation-orbit expansion by %.3g" % e, e)
            cz = FC.full_fc_to_compact_fc(ph.primitive, y)
            if np.abs(cz - cx).max() > 0:
                return fail("compact-full-compact", "compact->full->compact not identity")
            # the full array in other memory layouts (a (3N,3N) Hessian viewed as (N,N,3,3); Fortran order): same compact array,
            # and the compiled compact routines, which read the raw buffer, see the same numbers
            H = np.ascontiguousarray(x.transpose(0, 2, 1, 3).reshape(3 * ns, 3 * ns))
            views = {"hessian-view": H.reshape(ns, 3, ns, 3).transpose(0, 2, 1, 3), "fortran-order": np.asfortranarray(x)}
            want = np.array(cx, dtype="double", order="C")
            FC.symmetrize_compact_force_constants(want, ph.primitive, level=1)
            for nm, xv in views.items():
                assert np.array_equal(xv, x)
                c2 = FC.full_fc_to_compact_fc(ph.primitive, xv)
                trans += 1
                if not np.array_equal(np.asarray(c2), np.asarray(cx)):
                    return fail("layout/compact-values", "full_fc_to_compact_fc of the same numbers stored as %s differs" % nm)
                FC.symmetrize_compact_force_constants(c2, ph.primitive, level=1)
                e = np.abs(np.asarray(c2) - want).max() / scale
                if e > TOL:
                    return fail("layout/compact-symmetrize", "compact force constants made from a %s array symmetrise differently (by %.3g): the compiled routine does not see the same numbers" % (nm, e), e)
            return dict(ok=True, transitions=trans, nontrivial=nontriv, outcome="ok:" + rout)
    except Exception as e:
        import traceback

        return fail("raised", "%s: %s" % (type(e).__name__, traceback.format_exc()[-300:]))
    raise ValueError(rout)
