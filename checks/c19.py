"""C19 — thermal and random displacements follow harmonic canonical statistics.

The sampler's linear map is extracted exhaustively (one snapshot per basis vector of the normal-variate space), so
its covariance is a deterministic quantity compared with the canonical covariance of the supercell obtained by a
direct 3N x 3N diagonalisation.  Product walk over crystals x supercells (self-conjugate points only / conjugate
pairs / both) x temperature x statistics x cutoff, run twice on the same object in a different temperature order;
correlation matrix and its inverse; force constants rebuilt from eigen-solutions; thermal displacement matrices.
"""
from __future__ import annotations

import itertools

import numpy as np

from vtk import phx
from vtk.ref import lattice as RL
from vtk.ref import thermo as TH

ID = "C19"
VARIANT = "omp"
TECHNIQUE = "exhaustive extraction of the sampler's linear map (all unit vectors of the variate space) on the real RandomDisplacements class; direct-diagonalisation covariance oracle; product walk over (crystal, supercell type, T, statistics, cutoff, call history)"
RULE = ("case = (crystal, S, statistics, cutoff, temperature sequence) or a thermal-displacement configuration; non-trivial = the supercell "
        "has conjugate pairs of commensurate points or more than one atom per primitive cell")
ASSUMPTIONS = ["physical constants are taken from phonopy.units (their mutual consistency is C17's subject); formulas are the oracle's own",
               "imaginary modes enter with |omega| and modes below the cutoff are dropped, as documented"]
BUDGET = {"quick": 900, "thorough": 3400}

XT = ["NaCl-prim-2", "diamond-prim-2", "hcp-2", "tri-P1-3", "sc-1", "wurtzite-4"]
SS = [[[2, 0, 0], [0, 2, 0], [0, 0, 2]], [[2, 0, 0], [0, 1, 0], [0, 0, 1]], [[3, 0, 0], [0, 1, 0], [0, 0, 1]], [[3, 0, 0], [0, 3, 0], [0, 0, 1]],
      [[1, 1, 0], [-1, 1, 0], [0, 0, 1]], [[2, 1, 0], [0, 2, 0], [0, 0, 1]], [[3, 0, 0], [0, 2, 0], [0, 0, 1]]]


def plan(tier, seed):
    from vtk.alphabet import crystals as X

    groups = []
    n = 0
    xts = XT if tier == "quick" else XT + ["CsCl-2", "rhomb-prim-2", "mono-P21-2", "bct-conv-2", "trig-P3-4", "tri-P-1bar-2", "rutile-6", "ortho-P-2"]
    sss = SS if tier == "quick" else SS + [[[4, 0, 0], [0, 1, 0], [0, 0, 1]], [[1, 0, 1], [0, 2, 0], [-1, 0, 1]], [[2, 0, 0], [0, 2, 0], [0, 0, 3]], [[-1, 1, 1], [1, -1, 1], [1, 1, -1]], [[5, 0, 0], [0, 1, 0], [0, 0, 1]]]
    tseqs = ([300.0, 10.0], [0.0, 2000.0, 300.0]) if tier == "quick" else ([300.0, 10.0], [0.0, 2000.0, 300.0], [1e-3, 1e5], [77.0], [300.0, 300.0, 0.0, 300.0])
    for name in xts:
        nat = len(X.by_name()[name]["symbols"])
        for S in sss:
            if abs(RL.det3(S)) * nat > (24 if tier == "quick" else 40):
                continue
            g = []
            for stat, cutoff, tseq in itertools.product(("quantum", "classical"), (None, "between"), tseqs):
                if stat == "classical" and 0.0 in tseq:
                    tseq = [t for t in tseq if t > 0] + [50.0]
                g.append({"part": "rd", "xtal": name, "S": S, "stat": stat, "cutoff": cutoff, "T": tseq})
                n += 1
            # an explicit cutoff of exactly 0 on a crystal pinned by a weak on-site spring (no zero modes, but modes of a few 1e-3 THz,
            # below the default cutoff of 0.01 THz): every mode enters
            for stat in ("quantum", "classical"):
                g.append({"part": "rd", "xtal": name, "S": S, "stat": stat, "cutoff": "zero-pinned", "T": [300.0]})
                n += 1
            groups.append(g)
    # centred conventional cells with a primitive matrix: translation-equivalent atoms are not contiguous in the atom list and the
    # species have different masses
    for name, pm in (("NaCl-conv-8-interleaved", "F"), ("bct-AB-conv-4", "I")):
        for S in (SS[0], SS[1]) if name != "NaCl-conv-8-interleaved" else ([[1, 0, 0], [0, 1, 0], [0, 0, 1]], SS[1]):
            groups.append([{"part": "rd", "xtal": name, "S": S, "pm": pm, "stat": stat, "cutoff": None, "T": [300.0]} for stat in ("quantum", "classical")])
            n += 2
    for name in xts:
        g = []
        for mesh, fwin in itertools.product(([2, 2, 2], [3, 2, 1], [2, 2, 3]) if tier == "quick" else ([2, 2, 2], [3, 2, 1], [2, 2, 3], [4, 4, 4], [1, 1, 5], [3, 3, 3]), (None, "window")):
            g.append({"part": "tdm", "xtal": name, "mesh": mesh, "fwin": fwin})
            # the iterated mesh (use_iter_mesh=True), on the stable crystal and on one with imaginary modes (which never enter)
            g.append({"part": "tdm", "xtal": name, "mesh": mesh, "fwin": fwin, "iter": True})
            g.append({"part": "tdm", "xtal": name, "mesh": mesh, "fwin": fwin, "iter": True, "unstable": True})
            g.append({"part": "tdm", "xtal": name, "mesh": mesh, "fwin": fwin, "unstable": True})
        groups.append(g)
    from checks.c17 import CALCS

    groups.append([{"part": "rdapi", "calc": cc, "xtal": xn, "S": S_, "T": T_} for cc in CALCS for xn, S_ in (("tri-P1-2", [[1, 1, 0], [-1, 1, 0], [0, 0, 1]]), ("tri-P1-3", [[2, 0, 0], [0, 1, 0], [0, 0, 1]]))
                   for T_ in (300.0, 0.0)])
    meta = {"alphabet": {"crystals": xts, "api_calculators": [str(x) for x in CALCS], "supercells": len(sss), "statistics": 2, "cutoff": 2, "temperature_sequences": 2, "rd_cases": n},
            "bound": "complete product", "exhaustive": True, "not_covered": ["max_distance clipping (non-linear) beyond |u| <= max_distance"]}
    return groups, meta


def linear_map(rd, T):
    """u = L z : feed every unit vector of the variate space as one snapshot."""
    nii = len(rd._eigvals_ii)
    nb = len(rd._eigvals_ii[0])
    nij = len(rd._eigvals_ij) if rd._ij else 0
    nvar = nii * nb + nij * 2 * nb
    z_ii = np.zeros((nii, nvar, nb))
    z_ij = np.zeros((nij, 2, nvar, nb)) if nij else None
    s = 0
    for i in range(nii):
        for b in range(nb):
            z_ii[i, s, b] = 1.0
            s += 1
    for i in range(nij):
        for c in range(2):
            for b in range(nb):
                z_ij[i, c, s, b] = 1.0
                s += 1
    rd.run(T, number_of_snapshots=nvar, randn=(z_ii, z_ij))
    u = np.array(rd.u)  # (nvar, natom, 3)
    return u.reshape(nvar, -1), nvar, nij


def run_rd(case, seed, st):
    import phonopy.units as U
    from phonopy.phonon.random_displacements import RandomDisplacements

    if "ph" not in st:
        c = phx.xtal(case["xtal"])
        st["ph"] = phx.make_phonopy(c, case["S"], case.get("pm"))
        st["fc"] = phx.supercell_fc(st["ph"], phx.model_for(st["ph"], "nn", seed))
    ph, fc = st["ph"], st["fc"]
    sc = ph.supercell
    masses = np.asarray(sc.masses)
    ns = len(sc)
    if case["cutoff"] == "zero-pinned":
        fc = fc.copy()
        for i in range(ns):
            fc[i, i] += np.eye(3) * masses[i] * (0.006 / U.VaspToTHz) ** 2
    tag = "%s/cutoff=%s" % (case["stat"], case["cutoff"])
    # frequencies of the supercell (oracle) to place a cutoff between modes
    m3 = np.repeat(masses, 3)
    Dm = fc.transpose(0, 2, 1, 3).reshape(3 * ns, 3 * ns) / np.sqrt(m3[:, None] * m3[None, :])
    fall = np.sort(np.sqrt(np.abs(np.linalg.eigvalsh((Dm + Dm.T) / 2))) * U.VaspToTHz)
    cutoff = None
    cut_val = 0.01
    if case["cutoff"] == "between":
        ks = [k for k in range(3, len(fall) - 1) if fall[k + 1] - fall[k] > 1e-3 * fall[-1]]
        if not ks:
            return dict(ok=True, skipped="no gap between optical modes to place a cutoff in")
        k = ks[len(ks) // 3]
        cutoff = float((fall[k] + fall[k + 1]) / 2)
        cut_val = cutoff
    if case["cutoff"] == "zero-pinned":
        cutoff = 0.0
        cut_val = 0.0
        if not (0 < fall[0] and fall[2] < 0.01):
            raise RuntimeError("pinned model lost its purpose: lowest modes %r" % fall[:4])
    try:
        rd = RandomDisplacements(ph.supercell, ph.primitive, np.array(fc, dtype="double", order="C"), dist_func=case["stat"], cutoff_frequency=cutoff, factor=U.VaspToTHz, use_openmp=True)
    except Exception as e:
        return dict(ok=False, sig="C19/rd-init-raised/" + tag, msg="%s S=%s: %s: %s" % (case["xtal"], case["S"], type(e).__name__, str(e)[:200]))
    trans = 0
    nontriv = bool(rd._ij or len(ph.primitive) > 1)
    worst = 0.0
    for T in case["T"]:
        Lz, nvar, nij = linear_map(rd, T)
        trans += 1
        if nvar != 3 * ns:
            return dict(ok=False, sig="C19/variate-count/" + tag, msg="%s S=%s: %d normal variates for %d degrees of freedom" % (case["xtal"], case["S"], nvar, 3 * ns), nontrivial=nontriv)
        cov = Lz.T @ Lz
        want = TH.supercell_covariance(fc, masses, T, U.VaspToTHz, cut_val, U.Hbar, U.EV, U.AMU, U.Kb, classical=(case["stat"] == "classical"))
        scale = max(np.abs(want).max(), 1e-30)
        e = np.abs(cov - want).max() / scale
        worst = max(worst, e)
        if e > 1e-8:
            return dict(ok=False, sig="C19/covariance/%s/%s" % (tag, "conjugate-pairs" if nij else "self-conjugate-only"), resid=float(e), nontrivial=nontriv, transitions=trans,
                        msg="%s S=%s T=%g (sequence %s): covariance of the generated displacements differs from the canonical one by %.3g (rel)" % (case["xtal"], case["S"], T, case["T"], e))
        if T > 0 or case["stat"] == "quantum":
            rd.run_correlation_matrix(T)
            trans += 1
            uu = np.array(rd.uu).transpose(0, 2, 1, 3).reshape(3 * ns, 3 * ns)
            e = np.abs(uu - want).max() / scale
            if e > 1e-8:
                return dict(ok=False, sig="C19/correlation-matrix/" + tag, resid=float(e), nontrivial=nontriv, transitions=trans,
                            msg="%s S=%s T=%g: reported correlation matrix uu differs from the canonical covariance by %.3g (rel)" % (case["xtal"], case["S"], T, e))
            winv = TH.supercell_covariance(fc, masses, T, U.VaspToTHz, cut_val, U.Hbar, U.EV, U.AMU, U.Kb, classical=(case["stat"] == "classical"), pinv=True)
            ui = np.array(rd.uu_inv).transpose(0, 2, 1, 3).reshape(3 * ns, 3 * ns)
            e = np.abs(ui - winv).max() / max(np.abs(winv).max(), 1e-30)
            if e > 1e-7:
                return dict(ok=False, sig="C19/correlation-matrix-inverse/" + tag, resid=float(e), nontrivial=nontriv, transitions=trans,
                            msg="%s S=%s T=%g: uu_inv differs from the pseudo-inverse of the canonical covariance by %.3g (rel)" % (case["xtal"], case["S"], T, e))
    # force constants from unmodified eigen-solutions
    rd.run_d2f()
    trans += 1
    e = np.abs(np.array(rd.force_constants) - fc).max() / np.abs(fc).max()
    if e > 1e-9:
        return dict(ok=False, sig="C19/d2f/" + tag, resid=float(e), nontrivial=nontriv, transitions=trans,
                    msg="%s S=%s: force constants rebuilt from the eigen-solutions differ from the original by %.3g (rel)" % (case["xtal"], case["S"], e))
    # the same round trip on a crystal with imaginary modes, with the reported frequencies handed back through the public setter
    # unmodified (what treat_imaginary_modes-style post-processing does before run_d2f)
    fcu = fc.copy()
    for i in range(ns):
        fcu[i, i] -= np.eye(3) * masses.min() * (0.4 * fall[-1] / U.VaspToTHz) ** 2
    rdu = RandomDisplacements(ph.supercell, ph.primitive, np.array(fcu, dtype="double", order="C"), dist_func=case["stat"], factor=U.VaspToTHz)
    fr = np.array(rdu.frequencies, copy=True)
    if (fr < -1e-3 * np.abs(fr).max()).any():
        rdu.frequencies = fr
        rdu.run_d2f()
        trans += 1
        e = np.abs(np.array(rdu.force_constants) - fcu).max() / np.abs(fcu).max()
        if e > 1e-9:
            return dict(ok=False, sig="C19/d2f/frequencies-handed-back/imaginary-modes/" + tag, resid=float(e), nontrivial=nontriv, transitions=trans,
                        msg="%s S=%s: crystal with imaginary modes, frequencies = frequencies; run_d2f(): rebuilt force constants differ from the original by %.3g (rel)" % (case["xtal"], case["S"], e))
    # clipping
    rdc = RandomDisplacements(ph.supercell, ph.primitive, np.array(fc, dtype="double", order="C"), dist_func=case["stat"], max_distance=0.02, factor=U.VaspToTHz)
    rdc.run(1500.0, number_of_snapshots=4, random_seed=1)
    if np.linalg.norm(rdc.u, axis=2).max() > 0.02 * (1 + 1e-12):
        return dict(ok=False, sig="C19/max-distance", msg="displacement longer than max_distance", nontrivial=nontriv)
    return dict(ok=True, resid=float(worst), nontrivial=nontriv, transitions=trans, outcome="ok:rd:%s" % ("pairs" if rd._ij else "self-conjugate"))


def run_tdm(case, seed, st):
    import phonopy.units as U

    if "ph" not in st:
        c = phx.xtal(case["xtal"])
        S = [[2, 0, 0], [0, 2, 0], [0, 0, 2]] if len(c["symbols"]) < 4 else [[2, 0, 0], [0, 2, 0], [0, 0, 1]]
        st["ph"] = phx.make_phonopy(c, S, None)
        st["fc"] = phx.supercell_fc(st["ph"], phx.model_for(st["ph"], "nn", seed))
        st["ph"].force_constants = st["fc"]
    ph = st["ph"]
    mesh = case["mesh"]
    tag = ("window" if case["fwin"] else "all") + ("/iter-mesh" if case.get("iter") else "") + ("/unstable" if case.get("unstable") else "")
    want_unstable = bool(case.get("unstable"))
    if st.get("unstable", False) != want_unstable:
        fcu = st["fc"].copy()
        if want_unstable:
            # a negative on-site term: the lowest third of the spectrum turns imaginary
            ph.force_constants = st["fc"]
            ph.run_mesh(mesh, is_mesh_symmetry=False, is_gamma_center=True)
            f0 = np.sort(np.array(ph.get_mesh_dict()["frequencies"]).ravel())
            fcut = max(f0[len(f0) // 3] + 0.37 * (f0[len(f0) // 3 + 1] - f0[len(f0) // 3]), 0.4 * f0[-1])
            ms = np.asarray(ph.supercell.masses)
            for i in range(len(ms)):
                fcu[i, i] -= np.eye(3) * ms.min() * (fcut / U.VaspToTHz) ** 2
        ph.force_constants = fcu
        st["unstable"] = want_unstable
        st["fc_now"] = fcu
    ph.run_mesh(mesh, with_eigenvectors=True, is_mesh_symmetry=False, is_gamma_center=True)
    md = ph.get_mesh_dict()
    f, ev = np.array(md["frequencies"]), np.array(md["eigenvectors"])
    if want_unstable and not ((f < -1e-3 * np.abs(f).max()).any() and (f > 1e-3 * np.abs(f).max()).any()):
        raise RuntimeError("unstable model lost its purpose: frequencies %r" % np.sort(f.ravel())[[0, -1]])
    fmin, fmax = (1e-3, None) if not case["fwin"] else (0.3 * f.max(), 0.8 * f.max())
    if case.get("iter"):
        ph.init_mesh(mesh, with_eigenvectors=True, is_mesh_symmetry=False, is_gamma_center=True, use_iter_mesh=True)
    temps = [0.0, 100.0, 900.0]
    try:
        ph.run_thermal_displacement_matrices(temperatures=temps, freq_min=fmin, freq_max=fmax)
    except AssertionError:
        # phonopy's own sanity check `abs(imag) < 1e-10` (absolute, in A^2) on the accumulated matrices.  With modes of a few 1e-3 THz
        # (floppy model lattice) single terms are ~1e5 A^2 and their rounding alone exceeds it: no result is returned, nothing to judge.
        sel = f[(f > fmin) & ((f < fmax) if fmax else True)]
        big = (U.Hbar * U.EV / (2 * np.pi * sel.min() * 1e12) * (U.Kb * max(temps) / (U.Hbar * 2 * np.pi * sel.min() * 1e12)) / U.AMU / 1e-20 / np.asarray(ph.primitive.masses).min()) if len(sel) else 0.0
        if big * 2.2e-16 * f.size > 1e-10:  # f.size = number of accumulated terms
            return dict(ok=True, skipped="phonopy's internal sanity assertion (absolute 1e-10 A^2 on rounding) refuses a lattice with modes of ~1e-3 THz: no result to judge")
        return dict(ok=False, sig="C19/tdm/assertion/" + tag, nontrivial=True, msg="%s mesh=%s: run_thermal_displacement_matrices raised AssertionError although all terms are small (largest %.3g A^2)" % (case["xtal"], mesh, big))
    d = ph.get_thermal_displacement_matrices_dict()
    Um = np.array(d["thermal_displacement_matrices"])
    Uc = np.array(d["thermal_displacement_matrices_cif"])
    m = np.asarray(ph.primitive.masses)
    nat = len(m)
    Nq = len(f)
    want = np.zeros((len(temps), nat, 3, 3), dtype=complex)
    for k, T in enumerate(temps):
        for q in range(Nq):
            for b in range(f.shape[1]):
                fr = f[q, b]
                if not (fr > fmin and (fmax is None or fr < fmax)):
                    continue
                w = 2 * np.pi * fr * 1e12
                nb = 0.0 if T == 0 else 1.0 / np.expm1(U.Hbar * w / (U.Kb * T))
                pref = U.Hbar * U.EV / w * (0.5 + nb) / U.AMU / 1e-20  # amu A^2
                v = ev[q][:, b].reshape(nat, 3)
                for j in range(nat):
                    want[k, j] += pref * np.outer(v[j], v[j].conj()) / m[j]
    want = want.real / Nq
    scale = max(np.abs(want).max(), 1e-30)
    e = np.abs(Um - want).max() / scale
    if e > 1e-9:
        return dict(ok=False, sig="C19/tdm/formula/" + tag, resid=float(e), nontrivial=True,
                    msg="%s mesh=%s %s: thermal displacement matrices differ from (hbar/2Nm) sum (1+2n)/omega e x e* by %.3g (rel)" % (case["xtal"], mesh, tag, e))
    for k in range(len(temps)):
        for j in range(nat):
            M = Um[k, j]
            if np.abs(M - M.T).max() > 1e-12 * scale:
                return dict(ok=False, sig="C19/tdm/not-symmetric/" + tag, msg="matrix of atom %d not symmetric" % j, nontrivial=True)
            if np.linalg.eigvalsh((M + M.T) / 2).min() < -1e-10 * scale:
                return dict(ok=False, sig="C19/tdm/not-psd/" + tag, msg="matrix of atom %d has a negative eigenvalue" % j, nontrivial=True)
    # diagonal == mean-square displacements, also projected along a Cartesian direction
    ph.run_thermal_displacements(temperatures=temps, freq_min=fmin, freq_max=fmax)
    td = np.array(ph.get_thermal_displacements_dict()["thermal_displacements"]).reshape(len(temps), nat, 3)
    diag = np.einsum("tjaa->tja", Um)
    e = np.abs(td - diag).max() / scale
    if e > 1e-9:
        return dict(ok=False, sig="C19/tdm/diagonal-vs-msd/" + tag, resid=float(e), nontrivial=True,
                    msg="%s mesh=%s: Cartesian diagonal of the matrices differs from the mean-square displacements by %.3g" % (case["xtal"], mesh, e))
    L = np.asarray(ph.primitive.cell)
    dcart = np.array([0.3, -0.5, 0.81])
    dcart /= np.linalg.norm(dcart)
    ph.run_thermal_displacements(temperatures=temps, freq_min=fmin, freq_max=fmax, direction=dcart @ np.linalg.inv(L))
    tdp = np.array(ph.get_thermal_displacements_dict()["thermal_displacements"])
    wantp = np.einsum("a,tjab,b->tj", dcart, Um, dcart)
    e = np.abs(tdp - wantp).max() / scale
    if e > 1e-9:
        return dict(ok=False, sig="C19/tdm/projection/" + tag, resid=float(e), nontrivial=True,
                    msg="%s mesh=%s: mean-square displacement along a direction differs from d.U.d by %.3g" % (case["xtal"], mesh, e))
    # CIF convention: U_cart = A N U_cif N A^T with A = lattice vectors as columns, N = diag(|a*|,|b*|,|c*|)
    A = L.T
    a, b, c_ = L
    V = np.dot(a, np.cross(b, c_))
    rec = np.array([np.cross(b, c_), np.cross(c_, a), np.cross(a, b)]) / V
    N = np.diag(np.linalg.norm(rec, axis=1))
    ANi = np.linalg.inv(A @ N)
    wantc = np.einsum("ab,tjbc,dc->tjad", ANi, Um, ANi)
    e = np.abs(Uc - wantc).max() / max(np.abs(wantc).max(), 1e-30)
    if e > 1e-9:
        return dict(ok=False, sig="C19/tdm/cif-transform/" + tag, resid=float(e), nontrivial=True,
                    msg="%s: CIF matrices differ from N^-1 A^-1 U A^-T N^-1 by %.3g (rel)" % (case["xtal"], e))
    # a mesh commensurate with the supercell reproduces the diagonal blocks of the supercell covariance
    if not case["fwin"] and not want_unstable and list(mesh) == [int(x) for x in np.diag(np.array(ph.supercell_matrix))] and (np.diag(np.diag(ph.supercell_matrix)) == np.array(ph.supercell_matrix)).all():
        cov = TH.supercell_covariance(st["fc"], np.asarray(ph.supercell.masses), 100.0, U.VaspToTHz, 1e-3, U.Hbar, U.EV, U.AMU, U.Kb)
        p2s = np.asarray(ph.primitive.p2s_map)
        for j, sj in enumerate(p2s):
            blk = cov[3 * sj:3 * sj + 3, 3 * sj:3 * sj + 3]
            e = np.abs(blk - Um[1, j]).max() / scale
            if e > 1e-8:
                return dict(ok=False, sig="C19/tdm/vs-supercell-covariance", resid=float(e), nontrivial=True,
                            msg="%s: matrix of atom %d on the commensurate mesh differs from the diagonal block of the supercell covariance by %.3g" % (case["xtal"], j, e))
    return dict(ok=True, nontrivial=True, transitions=4, outcome="ok:tdm")


def run_rdapi(case, seed):
    """Through the Phonopy API with a calculator's unit system: the same physical crystal gives the same displacements, expressed in
    the calculator's length unit (same random seed = same variates).  Only crystals without degenerate modes: inside a degenerate
    subspace the eigenvector basis, hence the sample drawn for a given seed, is arbitrary (the distribution is what run_rd judges)."""
    from phonopy import Phonopy
    from phonopy.interface.calculator import get_default_physical_units
    from phonopy.structure.atoms import PhonopyAtoms

    from checks.c17 import LENGTH, parse_unit

    calc = case["calc"]
    c = phx.xtal(case["xtal"])
    ph0 = phx.make_phonopy(c, case["S"], None)
    fc = phx.supercell_fc(ph0, phx.model_for(ph0, "nn", seed))
    ph0.force_constants = fc
    u = get_default_physical_units(calc)
    L = LENGTH[u["length_unit"]]
    fcu = parse_unit(u["force_constants_unit"])
    cell = PhonopyAtoms(symbols=c["symbols"], cell=np.array(c["lattice"]) / L, scaled_positions=c["positions"])
    phc = phx.quiet(Phonopy, cell, supercell_matrix=case["S"], calculator=calc, factor=u["factor"])
    phc.force_constants = fc / fcu
    out = {}
    for nm, ph in (("default", ph0), ("calc", phc)):
        ph.init_random_displacements()
        a = np.array(ph.get_random_displacements_at_temperature(case["T"], 3, random_seed=11))
        phx.quiet(ph.generate_displacements, number_of_snapshots=3, temperature=case["T"], random_seed=11)
        b = np.array(ph.dataset["displacements"])
        out[nm] = (a, b)
    tag = "%s" % calc
    scale = max(np.abs(out["default"][0]).max(), 1e-12)
    for k, what in ((0, "get_random_displacements_at_temperature"), (1, "generate_displacements(temperature=)")):
        if out["calc"][k].shape != out["default"][k].shape:
            return dict(ok=False, sig="C19/api-units/shape/" + tag, nontrivial=True, msg="%s: shapes differ" % what)
        e = np.abs(out["calc"][k] * L - out["default"][k]).max() / scale
        if e > 5e-6:
            return dict(ok=False, sig="C19/api-units/%s" % tag, nontrivial=True, resid=float(e),
                        msg="%s %s T=%g: %s of the crystal given in %s units, converted to Angstrom (x%g), differs from the eV/Angstrom run by %.3g (rel); ratio of norms %.4g" % (
                            case["xtal"], calc, case["T"], what, calc, L, e, np.linalg.norm(out["calc"][k] * L) / np.linalg.norm(out["default"][k])))
    # history: the force constants are replaced after a first finite-temperature generation; the next one follows the new state
    if calc is None and case["T"] > 0:
        fc2 = fc * 1.44
        ph0.force_constants = fc2.copy()
        phx.quiet(ph0.generate_displacements, number_of_snapshots=3, temperature=case["T"], random_seed=11)
        again = np.array(ph0.dataset["displacements"])
        fresh = phx.make_phonopy(c, case["S"], None)
        fresh.force_constants = fc2.copy()
        phx.quiet(fresh.generate_displacements, number_of_snapshots=3, temperature=case["T"], random_seed=11)
        want2 = np.array(fresh.dataset["displacements"])
        e = np.abs(again - want2).max() / max(np.abs(want2).max(), 1e-12)
        if e > 1e-7:
            return dict(ok=False, sig="C19/api-history/generate-after-fc-change", nontrivial=True, resid=float(e),
                        msg="%s: generate_displacements(temperature=%g) after replacing the force constants differs from a fresh object by %.3g (rel); rms ratio to the first generation %.3f (1.2 expected for fc x 1.44 classical... )" % (
                            case["xtal"], case["T"], e, np.sqrt((out["default"][1] ** 2).mean() / (again ** 2).mean())))
    return dict(ok=True, nontrivial=bool(abs(L - 1) > 1e-9), transitions=4, outcome="ok:api-units")


def run_group(cases, seed):
    st = {}
    return [run_rdapi(c, seed) if c["part"] == "rdapi" else run_rd(c, seed, st) if c["part"] == "rd" else run_tdm(c, seed, st) for c in cases]
