#!/bin/bash
# Recreates /tmp/pbk (build kit handed to the sub-agents that write seeded changes, also used by tools/confirm_seed.py).
# Not needed by any registered check.
mkdir -p /tmp/pbk /tmp/wt /tmp/seed && cp -r /verif/vtk/nbshim /tmp/pbk/nbshim && cat > /tmp/pbk/build_ext.sh <<'E'
#!/bin/bash
# usage: /tmp/pbk/build_ext.sh <phonopy-worktree> <outdir> [extra gcc flags, default "-O2 -fopenmp"]
# Builds phonopy's C extension (phonopy._phonopy) from <worktree>/c WITHOUT nanobind (a stand-in header is used).
# Load it with:   import sys; sys.path.insert(0, "<worktree>"); import phonopy; phonopy.__path__.append("<outdir>")
set -e
WT=$1; OUT=$2; shift 2
FLAGS=${@:-"-O2 -fopenmp"}
mkdir -p $OUT
PYINC=$(/venv/bin/python -c "import sysconfig;print(sysconfig.get_paths()['include'])")
EXT=$(/venv/bin/python -c "import sysconfig;print(sysconfig.get_config_var('EXT_SUFFIX'))")
for f in $WT/c/*.c; do gcc -std=gnu99 -fPIC -w -DTHM_EPSILON=1e-10 $FLAGS -I$WT/c -c $f -o $OUT/$(basename $f .c).o; done
g++ -std=c++17 -fPIC -w $FLAGS -I/tmp/pbk/nbshim -I$WT/c -I$PYINC -c $WT/c/_phonopy.cpp -o $OUT/_phonopy.o
g++ -shared -o $OUT/_phonopy$EXT $OUT/*.o $FLAGS -lm
echo "built $OUT/_phonopy$EXT"
E
chmod +x /tmp/pbk/build_ext.sh && cat > /tmp/pbk/README.md <<'E'
# Build kit for phonopy in this sandbox (no network, no nanobind, phonopy not installed)

* Python: /venv/bin/python (3.12; numpy 2.5, spglib, h5py, PyYAML, pytest). scipy/symfc/seekpath are NOT installed.
* phonopy is imported from a source tree: `sys.path.insert(0, "<worktree>")` or run with cwd=<worktree>.
* The compiled extension `phonopy._phonopy` is NOT present by default, so most numerical code raises ImportError
  and only 81 of the repository's tests pass (the "baseline", list in /root/.vp/BASELINE.json key "stable_pass").
* To exercise numerical code build the extension from your worktree:
      /tmp/pbk/build_ext.sh <worktree> /tmp/<somewhere>/ext          # ~6 s, OpenMP build
      /tmp/pbk/build_ext.sh <worktree> /tmp/<somewhere>/ext_serial -O2   # serial build
  and in Python:
      import sys; sys.path.insert(0, "<worktree>")
      import phonopy; phonopy.__path__.append("/tmp/<somewhere>/ext")
  Do NOT write the .so into the worktree's phonopy/ directory (it would change which baseline tests pass).
* Baseline test command (must give the same 81 passes with your change; takes ~70 s):
      cd <worktree> && /venv/bin/python -m pytest -q -p no:cacheprovider --timeout=900 --continue-on-collection-errors 2>&1 | tail -3
  expected tail: "196 failed/errors ..., 81 passed" — the count of PASSED must stay 81 and no baseline test may fail.
E
echo ok