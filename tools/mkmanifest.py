#!/venv/bin/python
"""Regenerate MANIFEST.json from the table below + the check modules present (keeps it schema-valid)."""
import importlib
import json
import os
import sys

VERIF = os.path.dirname(os.path.dirname(os.path.abspath(__file__)))
sys.path.insert(0, VERIF)
sys.path.append(os.path.join(VERIF, "build", "deps"))

LEVEL = {
    "C01": ("For every (crystal variant, supercell matrix, primitive matrix) prefix of the alphabets and every displacement/solver option tuple within the deviation bound, phonopy generates displacements, receives the exact harmonic forces of a closed-form pair-spring crystal and must return that crystal's folded supercell force constants (full and compact) to 2e-9.",
            "3.C01", "vtk/ref/springs.py (self-checked: sum rule, permutation symmetry, isometry invariance); built-in finite-displacement solver only"),
    "C04": ("Every supercell / primitive-cell construction in a complete product of small alphabets (all 19683 matrices over {-1,0,1}, HNF det<=4, 16-32 crystals x 4 atom-order/offset variants, both algorithms, all centrings incl. non-tiling ones) is executed on the real constructors and judged by an exact integer coset oracle.",
            "3.C04", "numpy; vtk/ref/lattice.py (self-checked by brute force at start); fractional tolerance 1e-8"),
}

NOT_YET = "check not built yet in this session (planned, see DESIGN.md section 3); no claim is made"


def main():
    props = [json.loads(l) for l in open(os.path.join(VERIF, "properties.jsonl"))]
    checks = []
    na = []
    for p in props:
        cid = p["id"]
        path = os.path.join(VERIF, "checks", cid.lower() + ".py")
        if os.path.exists(path):
            mod = importlib.import_module("checks." + cid.lower())
            if not getattr(mod, "REGISTERED", True):
                na.append({"property_id": cid, "reason": NA.get(cid, NOT_YET)})
                continue
            if cid in LEVEL:
                text, ref, note = LEVEL[cid]
            else:
                text = (mod.__doc__ or "").strip().replace("\n", " ")
                ref = "3." + cid
                note = "; ".join(getattr(mod, "ASSUMPTIONS", []))
            checks.append({
                "property_id": cid,
                "quick_cmd": "./vt check %s --tier quick" % cid,
                "thorough_cmd": "./vt check %s --tier thorough" % cid,
                "evidence_file": "/verif/evidence/%s.json" % cid,
                "replay_cmd_template": "./vt replay {path}",
                "engine": getattr(mod, "ENGINE", "product-walk"),
                "level_claimed": {"category": "model_checking", "text": text, "design_ref": ref},
                "level_note": note,
                "technique": getattr(mod, "TECHNIQUE", "bounded-exhaustive exploration of the real code against a reference model"),
            })
        else:
            na.append({"property_id": cid, "reason": NA.get(cid, NOT_YET)})
    man = {
        "version": 1,
        "setup_cmd": "./vt setup",
        "hooks": {
            "guard": "PHONOPY_VERIF",
            "enable": "no source hooks are needed: checks import /repo's working tree directly and build c/ with a nanobind stand-in into /verif/build (nothing written to /repo)",
            "baseline_off_cmd": "cd /repo && /venv/bin/python -m pytest -ra -q -p no:cacheprovider --timeout=900 --continue-on-collection-errors",
            "source_commits": [],
            "add_only": True,
        },
        "engines": [
            {"name": "product-walk", "path": "vtk/runner.py", "serves_properties": [c["property_id"] for c in checks if c["engine"] == "product-walk"],
             "kind_free_text": "exhaustive enumeration of a finite product of small alphabets (or all tuples within a deviation bound); every tuple is executed on the real code in a worker pool and judged by an independent reference model"},
            {"name": "bfs", "path": "vtk/bfs.py", "serves_properties": [c["property_id"] for c in checks if c["engine"] == "bfs"],
             "kind_free_text": "explicit-state breadth-first search over operation histories of the real object; states are rebuilt by replay and merged on a canonical key of the live object"},
            {"name": "vtomp", "path": "vtk/vtomp/vt_rt.c", "serves_properties": [c["property_id"] for c in checks if c["engine"] == "vtomp"],
             "kind_free_text": "controlled OpenMP runtime: team threads are coroutines, every instrumented memory access is a scheduling point; per region the inter-thread dependency relation is computed (DPOR) and bounded-preemption schedules are enumerated"},
        ],
        "checks": checks,
        "not_applicable": na,
        "notes": "All checks run the current /repo working tree (Python imported from /repo, C extension rebuilt from /repo/c keyed by source hash). known_findings.json lists genuine defects recorded rather than repaired, and the fix: commits made.",
    }
    import jsonschema

    jsonschema.validate(man, json.load(open("/root/.vp/MANIFEST.schema.json")))
    with open(os.path.join(VERIF, "MANIFEST.json"), "w") as f:
        json.dump(man, f, indent=1)
    print("MANIFEST.json: %d checks, %d not_applicable" % (len(checks), len(na)))


NA = {}

if __name__ == "__main__":
    main()
