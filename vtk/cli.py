from __future__ import annotations

import argparse
import os
import sys

VERIF = os.path.dirname(os.path.dirname(os.path.abspath(__file__)))


def main(argv=None):
    os.environ.setdefault("PYTHONHASHSEED", "0")
    if VERIF not in sys.path:
        sys.path.insert(0, VERIF)
    deps = os.path.join(VERIF, "build", "deps")
    if deps not in sys.path:
        sys.path.append(deps)
    ap = argparse.ArgumentParser(prog="vt")
    sub = ap.add_subparsers(dest="cmd", required=True)
    c = sub.add_parser("check")
    c.add_argument("id")
    c.add_argument("--tier", default=os.environ.get("VERIF_TIER", "quick"), choices=["quick", "thorough"])
    r = sub.add_parser("replay")
    r.add_argument("path")
    r.add_argument("--quiet", action="store_true")
    sub.add_parser("setup")
    g = sub.add_parser("rungroup")
    g.add_argument("inp")
    g.add_argument("outp")
    a = ap.parse_args(argv)
    if a.cmd in ("check", "replay", "rungroup") and not (os.path.isdir(os.path.join(deps, "scipy")) and os.path.isdir(os.path.join(deps, "jsonschema"))):
        # fresh clone: the private dependencies are installed from the offline wheelhouse on first use
        from vtk import setup

        if not setup.ensure_deps():
            return 2
        import importlib

        sys.path_importer_cache.pop(deps, None)  # the directory did not exist when it was put on sys.path
        importlib.invalidate_caches()
    if a.cmd == "check":
        from vtk import runner

        return runner.run_check(a.id.upper(), a.tier)
    if a.cmd == "replay":
        from vtk import runner

        return runner.run_replay(a.path, a.quiet)
    if a.cmd == "rungroup":
        from vtk import runner

        return runner.run_group_file(a.inp, a.outp)
    if a.cmd == "setup":
        from vtk import setup

        return setup.main()


if __name__ == "__main__":
    try:
        rc = main()
    except SystemExit:
        raise
    except BaseException:  # a harness failure must never look like a verdict (exit 1)
        import traceback

        traceback.print_exc()
        rc = 2
    sys.exit(rc)
