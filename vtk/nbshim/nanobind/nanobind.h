// Minimal stand-in for the subset of nanobind used by phonopy's c/_phonopy.cpp.
#pragma once
#define PY_SSIZE_T_CLEAN
#include <Python.h>
#include <cstdint>
#include <cstring>
#include <string>
#include <tuple>
#include <utility>
#include <vector>

namespace nanobind {

struct cast_error { std::string msg; };

// ---- ndarray<> : pointer + shape, no dtype/contiguity checking (as nb::ndarray<>)
template <typename... Ts>
class ndarray {
   public:
    ndarray() { std::memset(&view_, 0, sizeof(view_)); }
    ndarray(const ndarray &) = delete;
    ndarray(ndarray &&o) noexcept {
        view_ = o.view_;
        held_ = o.held_;
        o.held_ = false;
    }
    ~ndarray() {
        if (held_) PyBuffer_Release(&view_);
    }
    bool load(PyObject *o) {
        if (PyObject_GetBuffer(o, &view_, PyBUF_STRIDES | PyBUF_FORMAT | PyBUF_WRITABLE) != 0) {
            PyErr_Clear();
            if (PyObject_GetBuffer(o, &view_, PyBUF_STRIDES | PyBUF_FORMAT) != 0) {
                PyErr_Clear();
                return false;
            }
        }
        held_ = true;
        return true;
    }
    void *data() const { return view_.buf; }
    size_t shape(size_t i) const { return (size_t)view_.shape[i]; }
    size_t ndim() const { return (size_t)view_.ndim; }
    const Py_buffer &view() const { return view_; }

   private:
    Py_buffer view_;
    bool held_ = false;
};

namespace detail {
typedef void (*monitor_fn)(const char *fname, int argi, const Py_buffer *view);
inline monitor_fn &monitor() { static monitor_fn m = nullptr; return m; }

template <typename T, typename = void>
struct caster;

template <typename... Ts>
struct caster<ndarray<Ts...>> {
    ndarray<Ts...> value;
    bool load(PyObject *o) { return value.load(o); }
    ndarray<Ts...> take() { return std::move(value); }
};
template <typename T>
struct caster<T, std::enable_if_t<std::is_integral_v<T> && !std::is_same_v<T, bool>>> {
    T value;
    bool load(PyObject *o) {
        if (PyFloat_Check(o)) return false;  // nanobind does not convert float -> int
        long long v = PyLong_AsLongLong(o);
        if (v == -1 && PyErr_Occurred()) { PyErr_Clear(); return false; }
        value = (T)v;
        return (long long)value == v;
    }
    T take() { return value; }
};
template <>
struct caster<bool> {
    bool value;
    bool load(PyObject *o) {
        if (o == Py_True) { value = true; return true; }
        if (o == Py_False) { value = false; return true; }
        return false;
    }
    bool take() { return value; }
};
template <>
struct caster<double> {
    double value;
    bool load(PyObject *o) {
        value = PyFloat_AsDouble(o);
        if (value == -1.0 && PyErr_Occurred()) { PyErr_Clear(); return false; }
        return true;
    }
    double take() { return value; }
};
template <>
struct caster<const char *> {
    std::string value;
    bool load(PyObject *o) {
        const char *s = PyUnicode_AsUTF8(o);
        if (!s) { PyErr_Clear(); return false; }
        value = s;
        return true;
    }
    const char *take() { return value.c_str(); }
};

template <typename C>
inline void notify(const char *, int, C &) {}
template <typename... Ts>
inline void notify(const char *fname, int argi, caster<ndarray<Ts...>> &c) {
    monitor()(fname, argi, &c.value.view());
}

inline PyObject *to_py(bool v) { if (v) Py_RETURN_TRUE; Py_RETURN_FALSE; }
inline PyObject *to_py(double v) { return PyFloat_FromDouble(v); }
inline PyObject *to_py(long v) { return PyLong_FromLong(v); }
inline PyObject *to_py(long long v) { return PyLong_FromLongLong(v); }
inline PyObject *to_py(int v) { return PyLong_FromLong(v); }

template <typename Ret, typename... Args>
struct record {
    Ret (*fn)(Args...);
    std::string name;
    PyMethodDef def;
};

template <typename Ret, typename... Args, size_t... I>
PyObject *invoke(record<Ret, Args...> *rec, PyObject *args, std::index_sequence<I...>) {
    if (PyTuple_GET_SIZE(args) != (Py_ssize_t)sizeof...(Args)) {
        PyErr_Format(PyExc_TypeError, "%s(): incompatible function arguments (expected %d, got %d)",
                     rec->name.c_str(), (int)sizeof...(Args), (int)PyTuple_GET_SIZE(args));
        return nullptr;
    }
    std::tuple<caster<std::decay_t<Args>>...> cs;
    bool ok = (std::get<I>(cs).load(PyTuple_GET_ITEM(args, I)) && ...);
    if (!ok) {
        PyErr_Format(PyExc_TypeError, "%s(): incompatible function arguments", rec->name.c_str());
        return nullptr;
    }
    if (monitor()) {
        monitor()(rec->name.c_str(), -1, nullptr);  // call begins
        (notify(rec->name.c_str(), (int)I, std::get<I>(cs)), ...);
    }
    if constexpr (std::is_void_v<Ret>) {
        rec->fn(std::get<I>(cs).take()...);
        if (monitor()) monitor()(rec->name.c_str(), -2, nullptr);  // call ended
        Py_RETURN_NONE;
    } else {
        auto r = rec->fn(std::get<I>(cs).take()...);
        if (monitor()) monitor()(rec->name.c_str(), -2, nullptr);
        return to_py(r);
    }
}

template <typename Ret, typename... Args>
PyObject *trampoline(PyObject *self, PyObject *args) {
    auto *rec = (record<Ret, Args...> *)PyCapsule_GetPointer(self, nullptr);
    return invoke(rec, args, std::index_sequence_for<Args...>{});
}
}  // namespace detail

class module_ {
   public:
    explicit module_(PyObject *m) : m_(m) {}
    template <typename Ret, typename... Args>
    module_ &def(const char *name, Ret (*fn)(Args...)) {
        auto *rec = new detail::record<Ret, Args...>{fn, name, {}};
        rec->def.ml_name = rec->name.c_str();
        rec->def.ml_meth = (PyCFunction)&detail::trampoline<Ret, Args...>;
        rec->def.ml_flags = METH_VARARGS;
        rec->def.ml_doc = nullptr;
        PyObject *cap = PyCapsule_New(rec, nullptr, nullptr);
        PyObject *f = PyCFunction_NewEx(&rec->def, cap, nullptr);
        Py_DECREF(cap);
        PyModule_AddObject(m_, name, f);
        return *this;
    }
    PyObject *ptr() const { return m_; }

   private:
    PyObject *m_;
};
}  // namespace nanobind

extern "C" __attribute__((visibility("default"), used)) void nbshim_set_monitor(
    nanobind::detail::monitor_fn f) {
    nanobind::detail::monitor() = f;
}

#define NB_MODULE(name, var)                                                    \
    static void nb_init_##name(nanobind::module_ &);                            \
    static PyModuleDef nb_def_##name = {PyModuleDef_HEAD_INIT, #name, nullptr, -1, nullptr, \
                                        nullptr, nullptr, nullptr, nullptr};    \
    extern "C" __attribute__((visibility("default"))) PyObject *PyInit_##name() { \
        PyObject *m = PyModule_Create(&nb_def_##name);                          \
        if (!m) return nullptr;                                                 \
        nanobind::module_ mod(m);                                               \
        nb_init_##name(mod);                                                    \
        return m;                                                               \
    }                                                                           \
    static void nb_init_##name(nanobind::module_ &var)
