"""Harmonic pair-spring crystal — reference model independent of phonopy.

phi(v) = -[k_r(d) e e^T + k_t(d) (1 - e e^T)],  e = v/|v|, d = |v|, for every ordered pair of distinct atoms
(including periodic images) with d < R_c; k_r, k_t depend only on the unordered species pair and d and go
to zero smoothly at R_c, so pairs at the cutoff contribute nothing and rounding of d cannot matter.
The self term follows from the acoustic sum rule.  Such a model is invariant under every isometry of the
crystal that preserves species, under index permutation and under translation — whatever the space group.
"""
from __future__ import annotations

import hashlib
import itertools

import numpy as np


class SpringModel:
    def __init__(self, rc: float, seed: int = 0, central: bool = False, decay: float = 0.7, chiral: float = 0.0, axial: float = 0.0, axis=(0.0, 0.0, 1.0)):
        # axial != 0 adds -axial*k_r*(n n^T) to every pair block (n = unit vector along `axis`): an extra stiffness along one
        # direction, invariant under exactly those isometries that map the axis onto +-itself (a uniaxial crystal field, e.g. of a
        # ferromagnet magnetised along n); symmetric, so index-permutation symmetry and the acoustic sum rule are kept
        self.axial = float(axial)
        self.axis = np.array(axis, float) / np.linalg.norm(axis)
        # chiral != 0 adds an antisymmetric part c*k_r*[e]x to every pair block (Phi(ij) != Phi(ij)^T while
        # Phi(ji) = Phi(ij)^T still holds); the self term takes the symmetric parts only, so the acoustic sum rule is given up
        self.chiral = float(chiral)
        self.rc = float(rc)
        self.seed = int(seed)
        self.central = central
        self.decay = decay

    def _base(self, sa: str, sb: str):
        a, b = sorted((sa, sb))
        h = hashlib.sha256(("%s|%s|%d" % (a, b, self.seed)).encode()).digest()
        u = int.from_bytes(h[:4], "big") / 2 ** 32
        w = int.from_bytes(h[4:8], "big") / 2 ** 32
        return 0.8 + 2.4 * u, 0.15 + 0.35 * w  # k_r scale (eV/A^2), k_t/k_r ratio

    def k(self, sa, sb, d):
        kr0, ratio = self._base(sa, sb)
        x = np.clip(1.0 - d / self.rc, 0.0, None)
        env = x * x * np.exp(-self.decay * d / 3.0)
        kr = kr0 * env
        kt = np.zeros_like(kr) if self.central else kr0 * ratio * env * (0.5 + 0.5 * np.cos(d))
        return kr, kt

    def todict(self):
        return {"rc": self.rc, "seed": self.seed, "central": self.central, "decay": self.decay, "chiral": self.chiral, "axial": self.axial, "axis": self.axis.tolist()}


def lattice_translations(L, rmax):
    """All integer n (rows) such that some point of the cell n could be within rmax of the origin cell:
    |n_i| <= ceil(rmax*|b_i|) + 1 with b_i the reciprocal rows."""
    L = np.asarray(L, float)
    B = np.linalg.inv(L).T
    m = [int(np.ceil(rmax * np.linalg.norm(B[i]))) + 1 for i in range(3)]
    g = np.array(list(itertools.product(*[range(-k, k + 1) for k in m])), dtype=int)
    return g


def shortest_lattice_vector(L):
    L = np.asarray(L, float)
    best = min(np.linalg.norm(L, axis=1))
    g = lattice_translations(L, best)
    ln = np.linalg.norm(g @ L, axis=1)
    return float(ln[ln > 1e-9].min())


_EPS = np.zeros((3, 3, 3))
for _a, _b, _c in ((0, 1, 2), (1, 2, 0), (2, 0, 1)):
    _EPS[_a, _b, _c] = 1.0
    _EPS[_b, _a, _c] = -1.0


def _phi_block(v, kr, kt, chiral=0.0, axial=None):
    d = np.linalg.norm(v, axis=-1)
    e = v / d[..., None]
    ee = e[..., :, None] * e[..., None, :]
    out = -(kr[..., None, None] * ee + kt[..., None, None] * (np.eye(3) - ee))
    if chiral:
        out = out - chiral * kr[..., None, None] * np.einsum("abc,...c->...ab", _EPS, e)
    if axial is not None and axial[0]:
        out = out - axial[0] * kr[..., None, None] * np.outer(axial[1], axial[1])
    return out


def _sym(p):
    return 0.5 * (p + np.swapaxes(p, -1, -2))


def folded_fc(L, cart, symbols, model: SpringModel):
    """Supercell force constants Phi_S(i,j) = sum_T phi(r_j + T - r_i), self term by the sum rule."""
    L = np.asarray(L, float)
    cart = np.asarray(cart, float)
    n = len(cart)
    # bring atoms into the cell so that the translation bound is valid
    frac = cart @ np.linalg.inv(L)
    shift = np.floor(frac)
    cart0 = (frac - shift) @ L
    span = np.linalg.norm(L, axis=1).sum()
    T = lattice_translations(L, model.rc) @ L
    fc = np.zeros((n, n, 3, 3))
    for i in range(n):
        for j in range(n):
            v = cart0[j] + T - cart0[i]
            d = np.linalg.norm(v, axis=1)
            m = (d > 1e-8) & (d < model.rc)
            if not m.any():
                continue
            kr, kt = model.k(symbols[i], symbols[j], d[m])
            p = _phi_block(v[m], kr, kt, model.chiral, (model.axial, model.axis)).sum(axis=0)
            fc[i, j] += p
            fc[i, i] -= _sym(p)
    return fc


def forces_for_dataset(fc, dataset):
    """Exact harmonic forces F = -Phi_S u for a phonopy type-1 or type-2 displacement dataset."""
    if "first_atoms" in dataset:
        out = []
        for d in dataset["first_atoms"]:
            out.append(-np.einsum("iab,b->ia", fc[:, d["number"]], np.asarray(d["displacement"], float)))
        return np.array(out)
    u = np.asarray(dataset["displacements"], float)
    return -np.einsum("ijab,sjb->sia", fc, u)


def dynmat(Lp, cart, symbols, masses, q_frac, model: SpringModel):
    """Infinite-lattice dynamical matrix D(jj',q) = (m_j m_j')^-1/2 sum_l Phi(j0,j'l) exp(2 pi i q.[r(j'l)-r(j0)])."""
    Lp = np.asarray(Lp, float)
    cart = np.asarray(cart, float)
    n = len(cart)
    frac = cart @ np.linalg.inv(Lp)
    cart0 = (frac - np.floor(frac)) @ Lp
    T = lattice_translations(Lp, model.rc) @ Lp
    qc = np.linalg.inv(Lp) @ np.asarray(q_frac, float)  # Cartesian q (no 2 pi): q.r = q_frac . r_frac
    D = np.zeros((n, 3, n, 3), dtype=complex)
    for i in range(n):
        for j in range(n):
            v = cart0[j] + T - cart0[i]
            d = np.linalg.norm(v, axis=1)
            m = (d > 1e-8) & (d < model.rc)
            if not m.any():
                continue
            kr, kt = model.k(symbols[i], symbols[j], d[m])
            p = _phi_block(v[m], kr, kt, model.chiral, (model.axial, model.axis))
            ph = np.exp(2j * np.pi * (v[m] @ qc))
            D[i, :, j, :] += (p * ph[:, None, None]).sum(axis=0) / np.sqrt(masses[i] * masses[j])
            D[i, :, i, :] -= _sym(p.sum(axis=0)) / masses[i]
    return D.reshape(3 * n, 3 * n)


def dynmat_gradient(Lp, cart, symbols, masses, q_frac, model: SpringModel):
    """dD/dq_cart (3 matrices), q_cart in 1/Angstrom without 2 pi: d/dq exp(2 pi i q.v) = 2 pi i v exp(...)."""
    Lp = np.asarray(Lp, float)
    cart = np.asarray(cart, float)
    n = len(cart)
    frac = cart @ np.linalg.inv(Lp)
    cart0 = (frac - np.floor(frac)) @ Lp
    T = lattice_translations(Lp, model.rc) @ Lp
    qc = np.linalg.inv(Lp) @ np.asarray(q_frac, float)
    G = np.zeros((3, n, 3, n, 3), dtype=complex)
    for i in range(n):
        for j in range(n):
            v = cart0[j] + T - cart0[i]
            d = np.linalg.norm(v, axis=1)
            m = (d > 1e-8) & (d < model.rc)
            if not m.any():
                continue
            kr, kt = model.k(symbols[i], symbols[j], d[m])
            p = _phi_block(v[m], kr, kt, model.chiral, (model.axial, model.axis))
            ph = np.exp(2j * np.pi * (v[m] @ qc))
            for a in range(3):
                G[a, i, :, j, :] += (p * (2j * np.pi * v[m][:, a] * ph)[:, None, None]).sum(axis=0) / np.sqrt(masses[i] * masses[j])
    return G.reshape(3, 3 * n, 3 * n)


def selfcheck():
    """Internal consistency of the model (no phonopy): sum rule, permutation symmetry, Hermiticity, isometry invariance."""
    L = np.array([[3.1, 0, 0], [0.4, 3.3, 0], [0.2, -0.3, 3.6]]) * 2
    cart = np.array([[0.1, 0.2, 0.3], [1.6, 1.4, 1.9], [3.0, 0.5, 2.2], [4.0, 4.1, 3.9]])
    sym = ["A", "B", "A", "C"]
    mdl = SpringModel(rc=5.0, seed=3)
    fc = folded_fc(L, cart, sym, mdl)
    assert np.abs(fc.sum(axis=1)).max() < 1e-12
    assert np.abs(fc - fc.transpose(1, 0, 3, 2)).max() < 1e-12
    D = dynmat(L, cart, sym, [1.0, 2.0, 1.0, 3.0], [0.13, -0.2, 0.31], mdl)
    assert np.abs(D - D.conj().T).max() < 1e-12
    # rigid rotation + relabelling invariance of the folded constants
    th = 0.7
    R = np.array([[np.cos(th), -np.sin(th), 0], [np.sin(th), np.cos(th), 0], [0, 0, 1]])
    fc2 = folded_fc(L @ R.T, cart @ R.T, sym, mdl)
    assert np.abs(np.einsum("ia,nmab,jb->nmij", R, fc, R) - fc2).max() < 1e-11
    # commensurate-q identity: D(q) from the folded fc of a 1x1x1 "supercell" at q=0 equals dynmat at Gamma
    m = np.array([1.0, 2.0, 1.0, 3.0])
    D0 = dynmat(L, cart, sym, m, [0, 0, 0], mdl)
    Dfc = (fc / np.sqrt(m[:, None] * m[None, :])[:, :, None, None]).transpose(0, 2, 1, 3).reshape(12, 12)
    assert np.abs(D0 - Dfc).max() < 1e-12
    # chiral variant: permutation symmetry and Hermiticity survive, the pair blocks are not symmetric any more
    mc = SpringModel(rc=5.0, seed=3, chiral=0.4)
    fcc = folded_fc(L, cart, sym, mc)
    assert np.abs(fcc - fcc.transpose(1, 0, 3, 2)).max() < 1e-12
    assert np.abs(fcc - fcc.transpose(0, 1, 3, 2)).max() > 1e-3
    Dc = dynmat(L, cart, sym, m, [0.13, -0.2, 0.31], mc)
    assert np.abs(Dc - Dc.conj().T).max() < 1e-12
    D0c = dynmat(L, cart, sym, m, [0, 0, 0], mc)
    Dfcc = (fcc / np.sqrt(m[:, None] * m[None, :])[:, :, None, None]).transpose(0, 2, 1, 3).reshape(12, 12)
    assert np.abs(D0c - Dfcc).max() < 1e-12
