"""C09 — symmetry-reduced mesh sampling equals full mesh sampling.

(1) GridPoints alone: product walk over lattices/point groups x mesh numbers {1..4}^3 x shifts (none, all half
shifts, generic) x gamma-centre x time reversal x mesh symmetry x fit-in-BZ: weights sum to the grid size, the
mapping table is a projection onto the irreducible points, every grid point is the image of its representative
under an operation of the crystal's point group (verified independently) or time reversal, and the q-points are
the requested mesh.  (2) Phonopy.run_mesh with mesh symmetry on/off: thermal properties, smearing DOS, moments agree.
"""
from __future__ import annotations

import itertools
import json
import os

import numpy as np

from vtk import phx
from vtk.alphabet import crystals as X

ID = "C09"
VARIANT = "omp"
TECHNIQUE = "bounded-exhaustive product walk over (lattice/point group, mesh, shift, centring, time reversal, mesh symmetry) on the real GridPoints/Mesh code; orbit oracle with independently verified point-group operations; reduced-vs-full differential"
RULE = ("case = one GridPoints configuration or one run_mesh on/off pair; non-trivial = the reduction merges at least two grid points "
        "(fewer irreducible points than grid points)")
ASSUMPTIONS = ["point-group operations reported by phonopy/spglib are verified by brute force against the crystal before use",
               "frequencies at symmetry-related q agree (C03)"]
BUDGET = {"quick": 900, "thorough": 3400}

LATTICES = ["sc-1", "hcp-2", "rhomb-prim-2", "bct-conv-2", "ortho-C-conv-2", "mono-C-conv-4", "tri-P1-3", "NaCl-prim-2", "wurtzite-4", "tri-P-1bar-2", "fcc-conv-4"]
SHIFTS = [None, [0.5, 0, 0], [0, 0.5, 0], [0, 0, 0.5], [0.5, 0.5, 0], [0, 0.5, 0.5], [0.5, 0, 0.5], [0.5, 0.5, 0.5], [0.25, 0, 0], [0.1, 0.2, 0.3]]


def plan(tier, seed):
    groups = []
    rng = (1, 2, 3, 4) if tier == "quick" else (1, 2, 3, 4, 5, 6)
    meshes = list(itertools.product(rng, repeat=3))
    if tier == "quick":
        meshes = [m for m in meshes if sorted(m) in ([1, 1, 1], [2, 2, 2], [3, 3, 3], [4, 4, 4]) or len(set(m)) >= 2 and sum(m) <= 9 or sorted(m) == [2, 4, 4]]
    nconf = 0
    for name in (LATTICES if tier != "quick" else LATTICES[:9]) + ["tet-a-2", "tet-b-2"]:
        for mchunk in range(0, len(meshes), 8):
            g = []
            for mesh in meshes[mchunk:mchunk + 8]:
                for sh, gc, tr, ms, fit in itertools.product(range(len(SHIFTS)), (False, True), (True, False), (True, False), (False, True)):
                    if tier == "quick" and fit and not ms:
                        continue
                    g.append({"kind": "grid", "xtal": name, "mesh": list(mesh), "shift": sh, "gc": gc, "tr": tr, "ms": ms, "fit": fit})
                    nconf += 1
            groups.append(g)
    for name in ("NaCl-prim-2", "hcp-2", "rhomb-prim-2", "bct-conv-2", "mono-C-conv-4", "wurtzite-4", "tri-P-1bar-2", "sc-1"):
        g = []
        for mesh in ([2, 2, 2], [3, 3, 3], [4, 4, 4], [3, 3, 2], [2, 3, 4], [4, 4, 1]):
            for sh in (0, 7, 1, 4, 8, 9):
                for gc, tr in itertools.product((False, True), (True, False)):
                    g.append({"kind": "phys", "xtal": name, "mesh": mesh, "shift": sh, "gc": gc, "tr": tr})
        groups.append(g)
    # meshes beyond any internal block size: > 1024 irreducible points with non-uniform weights; > 2^26/(16 nband^2) q-points with 24 bands
    groups.append([{"kind": "phys", "xtal": "ortho-P-2", "mesh": [23, 23, 23], "shift": 0, "gc": True, "tr": True}])
    groups.append([{"kind": "phys", "xtal": "ortho-P-2", "mesh": [13, 12, 11], "shift": 0, "gc": False, "tr": True}])
    groups.append([{"kind": "phys", "xtal": "NaCl-conv-8", "mesh": [20, 20, 20], "shift": 0, "gc": False, "tr": True, "noprim": True}])
    groups.append([{"kind": "phys", "xtal": "rutile-6", "mesh": [24, 24, 24], "shift": 0, "gc": True, "tr": True}])
    g = []
    for name in ("CsCl-2", "sc-1"):
        for mesh in ([2, 2, 2], [3, 3, 3], [4, 4, 4]):
            g.append({"kind": "phys", "xtal": name, "mesh": mesh, "shift": 0, "gc": False, "tr": True, "distort": 1e-6})
    groups.append(g)
    # magnetic order lowering the point group (fcc type-I antiferromagnet, layered bcc antiferromagnet)
    g = []
    for name, mag in (("fcc-conv-4", [1.0, -1.0, -1.0, 1.0]), ("bcc-conv-2", [1.0, -1.0]), ("fcc-conv-4", [1.0, 1.0, 1.0, 1.0])):
        for mesh in ([2, 2, 2], [3, 3, 3], [4, 4, 2], [2, 3, 4]):
            for gc in (False, True):
                g.append({"kind": "phys", "xtal": name, "mesh": mesh, "shift": 0, "gc": gc, "tr": True, "mag": mag})
    groups.append(g)
    # histories inside one process: crystals whose point groups have the same order but different matrices, same mesh
    # configuration, alternating (a cache keyed too coarsely would hand one crystal the other's mapping table)
    for mesh in ([2, 2, 2], [3, 3, 3], [4, 4, 4], [2, 2, 3], [4, 4, 2]):
        g = []
        for sh, gc, tr in itertools.product((0, 7, 4), (False, True), (True, False)):
            g.append({"kind": "grid-history", "mesh": mesh, "shift": sh, "gc": gc, "tr": tr, "ms": True, "fit": False,
                      "sequence": ["sc-1", "NaCl-prim-2", "sc-1", "bct-conv-2", "hcp-2", "ortho-C-conv-2", "bct-conv-2", "rhomb-prim-2", "wurtzite-4",
                                   "rhomb-prim-2", "mono-C-conv-4", "tri-P-1bar-2"]})
        groups.append(g)
    # Phonopy(is_symmetry=False) with force constants of lower symmetry than the structure; NAC with Born charges that
    # phonopy has to symmetrise
    for name in ("bct-conv-2", "hcp-2", "NaCl-prim-2", "rhomb-prim-2"):
        g = []
        for mesh in ([2, 2, 2], [3, 3, 3], [4, 4, 2], [3, 3, 2]):
            for sh in (0, 7):
                for gc in (False, True):
                    g.append({"kind": "phys", "xtal": name, "mesh": mesh, "shift": sh, "gc": gc, "tr": True, "nosym": True})
        groups.append(g)
    for name in ("rhomb-prim-2", "wurtzite-4", "NaCl-prim-2", "mono-C-conv-4", "ortho-P-2"):
        g = []
        for mesh in ([2, 2, 2], [3, 3, 3], [4, 4, 2]):
            for sh in (0, 7):
                for gc in (False, True):
                    g.append({"kind": "phys", "xtal": name, "mesh": mesh, "shift": sh, "gc": gc, "tr": True, "nac": "wang"})
        groups.append(g)
    meta = {"alphabet": {"lattices": LATTICES, "meshes": len(meshes), "shifts": [str(s) for s in SHIFTS], "grid_configurations": nconf},
            "bound": "complete product", "exhaustive": True, "not_covered": ["mesh numbers above 4 (quick; non-uniform meshes with sum > 9 other than the permutations of 2,4,4) / 6 (thorough)", "GeneralizedRegularGridPoints"]}
    return groups, meta


_cache = {}


def _sym(name):
    """primitive-cell point group (phonopy/spglib) + brute-force verification of every operation."""
    if name in _cache:
        return _cache[name]
    from phonopy.structure.symmetry import Symmetry
    from checks.c03 import _is_crystal_op

    c = phx.xtal(name)
    ph = phx.make_phonopy(c, np.eye(3, dtype=int), c["centring"][0] if c["centring"] else None)
    sym = ph.primitive_symmetry
    rots = np.array(sym.pointgroup_operations)
    bad = [W.tolist() for W in rots if not _is_crystal_op(ph, np.linalg.inv(W).T)]
    _cache[name] = (ph, rots, bad)
    return _cache[name]


def expected_qset(mesh, shift, gc):
    """All q of the requested mesh, mod 1 (oracle)."""
    mesh = np.array(mesh)
    s = np.zeros(3) if shift is None else np.array(shift, float)
    base = np.zeros(3)
    if not gc:
        base = np.where(mesh % 2 == 0, 0.5, 0.0)  # Monkhorst-Pack: even meshes do not contain Gamma
    pts = np.array(list(itertools.product(*[range(m) for m in mesh])), float)
    q = (pts + base + s) / mesh
    return q - np.floor(q + 1e-12)


def qkey(q, mesh):
    """hashable key of q mod 1 on the refined grid 40*mesh (shifts used are multiples of 1/20 of a grid step)"""
    d = np.array(mesh) * 40
    return tuple(int(v) for v in np.rint(q * d).astype(int) % d)


def run_grid(case, seed):
    from phonopy.structure.grid_points import GridPoints

    ph, rots, bad = _sym(case["xtal"])
    if bad:
        return dict(ok=False, sig="C09/reported-rotation-not-a-symmetry", msg="%s: point-group operation %s is not a symmetry of the crystal" % (case["xtal"], bad[0]))
    mesh = case["mesh"]
    shift = SHIFTS[case["shift"]]
    rec = np.linalg.inv(np.asarray(ph.primitive.cell))
    tag = "shift=%s/gc=%s/tr=%s/ms=%s" % ("none" if shift is None else ("half" if all(abs(2 * x - round(2 * x)) < 1e-9 for x in shift) else "generic"), case["gc"], case["tr"], case["ms"])
    try:
        gp = GridPoints(mesh, rec, q_mesh_shift=shift, is_gamma_center=case["gc"], is_time_reversal=case["tr"], fit_in_BZ=case["fit"],
                        rotations=rots, is_mesh_symmetry=case["ms"])
    except Exception as e:
        return dict(ok=False, sig="C09/grid-raised/" + tag, msg="%s mesh=%s shift=%s: %s: %s" % (case["xtal"], mesh, shift, type(e).__name__, str(e)[:150]))
    N = int(np.prod(mesh))
    w = np.asarray(gp.weights)
    qir = np.asarray(gp.qpoints)
    nontriv = bool(len(w) < N)

    def fail(kind, msg):
        return dict(ok=False, sig="C09/%s/%s" % (kind, tag), nontrivial=nontriv,
                    msg="%s mesh=%s shift=%s gc=%s tr=%s ms=%s fit=%s: %s" % (case["xtal"], mesh, shift, case["gc"], case["tr"], case["ms"], case["fit"], msg))

    if w.sum() != N or (w <= 0).any():
        return fail("weight-sum", "weights sum to %d, grid has %d points" % (w.sum(), N))
    if len(qir) != len(w):
        return fail("shape", "%d q-points, %d weights" % (len(qir), len(w)))
    gmt = np.asarray(gp.grid_mapping_table)
    irg = np.asarray(gp.ir_grid_points)
    ga = np.asarray(gp.grid_address)
    if len(gmt) != N or len(ga) != N:
        return fail("table-shape", "mapping table / address table do not cover the grid")
    if not np.array_equal(gmt[gmt], gmt) or sorted(set(gmt.tolist())) != sorted(irg.tolist()):
        return fail("mapping-not-projection", "grid_mapping_table is not a projection onto ir_grid_points")
    if not np.array_equal(np.bincount(gmt, minlength=N)[irg], w):
        return fail("weights-vs-table", "weights are not the orbit sizes of the mapping table")
    # all q of the grid as phonopy defines them: irreducible q for the representatives, same offset for the others
    off = qir - ga[irg] / np.array(mesh, float)
    off0 = off[0] - np.rint(off[0] - (off[0] - np.floor(off[0])))  # keep as given
    d = off - off[0]
    if np.abs(d - np.rint(d)).max() > 1e-9:
        return fail("q-offset", "irreducible q-points are not grid addresses plus one common shift")
    qall = ga / np.array(mesh, float) + off[0]
    # the grid must be the requested one
    want = {qkey(q, mesh) for q in expected_qset(mesh, shift, case["gc"])}
    got = {qkey(q, mesh) for q in qall}
    if got != want or len(got) != N:
        return fail("wrong-mesh", "the q-points are not the requested %s mesh (%d distinct, %d expected; Gamma %s)" % (
            "Gamma-centred" if case["gc"] else "Monkhorst-Pack", len(got), N, "in" if qkey(np.zeros(3), mesh) in got else "not in"))
    # orbit oracle
    ops = [np.linalg.inv(W).T for W in rots]
    if case["tr"]:
        ops = ops + [-R for R in ops]
    ops = np.array(ops)
    if nontriv:
        qr = qall[gmt]                      # representative of every grid point
        img = np.einsum("oab,gb->oga", ops, qr)
        dd = img - qall[None, :, :]
        okk = (np.abs(dd - np.rint(dd)).max(axis=2) < 1e-9).any(axis=0)
        if not okk.all():
            g = int(np.argmin(okk))
            return fail("not-an-image", "grid point q=%s is mapped to representative q=%s which is not related by any point-group operation%s" % (
                qall[g].round(4).tolist(), qr[g].round(4).tolist(), " or time reversal" if case["tr"] else ""))
    return dict(ok=True, nontrivial=nontriv, transitions=1, outcome="ok:grid:%s" % ("reduced" if nontriv else "full"))


def run_phys(case, seed):
    ck = ("ph", case["xtal"], bool(case.get("nosym")), case.get("nac"), bool(case.get("noprim")), json.dumps(case.get("mag")), case.get("distort"))
    if ck not in _cache:
        c = phx.xtal(case["xtal"])
        S = [[2, 0, 0], [0, 2, 0], [0, 0, 2]] if len(c["symbols"]) <= 2 else [[1, 0, 0], [0, 1, 0], [0, 0, 1]]
        if case.get("distort"):
            # a cubic cell stretched by 1e-6 along c with a user tolerance of 1e-7: the crystal IS tetragonal for that tolerance, and
            # so are the springs (they follow the distances); every symmetry search of the object has to use the caller's tolerance
            c = dict(c, lattice=(np.array(c["lattice"], float) * np.array([1.0, 1.0, 1.0 + case["distort"]])[:, None]).tolist())
            S = [[2, 0, 0], [0, 2, 0], [0, 0, 2]]
            ph = phx.make_phonopy(c, S, None, symprec=case["distort"] / 10)
            from vtk.ref import springs as SPd

            sc_ = ph.supercell
            mdl_ = phx.model_for(ph, "nn", seed)
            mdl_.decay = 4.0  # distance dependent springs: a 1e-6 strain changes them at the 1e-6 level
            fc = SPd.folded_fc(np.asarray(sc_.cell), sc_.positions, sc_.symbols, mdl_)
        elif case.get("mag"):
            # collinear magnetic order that lowers the point group; the springs depend on the spin species, so the force
            # constants have the magnetic symmetry only
            S = [[2, 0, 0], [0, 2, 0], [0, 0, 2]]
            ph = phx.make_phonopy(c, S, None, magmoms=case["mag"])
            from vtk.ref import springs as SPm

            sc_ = ph.supercell
            lab = ["%s%s" % (s_, "u" if m_ > 0 else "d") for s_, m_ in zip(sc_.symbols, np.ravel(sc_.magnetic_moments))]
            fc = SPm.folded_fc(np.asarray(sc_.cell), sc_.positions, lab, phx.model_for(ph, "nn", seed))
        else:
            ph = phx.make_phonopy(c, S, c["centring"][0] if (c["centring"] and not case.get("noprim")) else None, is_symmetry=not case.get("nosym"))
            fc = phx.supercell_fc(ph, phx.model_for(ph, "nn", seed))  # ("short" is below the nearest-neighbour distance for several of these cells: flat zero spectrum)
        if case.get("nosym"):
            # lower the symmetry of the force constants (keep index-permutation symmetry and the sum rule): the object was
            # told not to use crystal symmetry, so only time reversal may be used to reduce the mesh
            g = np.random.default_rng(5 + seed)
            pert = 0.2 * np.abs(fc).max() * g.normal(size=fc.shape)
            pert = (pert + pert.transpose(1, 0, 3, 2)) / 2
            n = len(pert)
            pert[np.arange(n), np.arange(n)] -= pert.sum(axis=1)
            fc = fc + pert
        ph.force_constants = fc
        if case.get("nac"):
            g = np.random.default_rng(9 + seed)
            nat = len(ph.primitive)
            born = g.normal(size=(nat, 3, 3)) * 0.3 + np.array([np.eye(3) * (1.5 if i % 2 == 0 else -1.5) for i in range(nat)])
            born -= born.mean(axis=0)
            eps = np.eye(3) * 3.0 + 0.3 * g.normal(size=(3, 3))
            eps = (eps + eps.T) / 2
            ph.nac_params = {"born": born, "dielectric": eps, "factor": 14.4, "method": case["nac"]}
        _cache[ck] = ph
    ph = _cache[ck]
    shift = SHIFTS[case["shift"]]
    tag = "shift=%s/gc=%s/tr=%s%s%s" % ("none" if shift is None else ("half" if all(abs(2 * x - round(2 * x)) < 1e-9 for x in shift) else "generic"), case["gc"], case["tr"],
                                     "/is_symmetry=False" if case.get("nosym") else "", "/nac=%s" % case["nac"] if case.get("nac") else "")
    res = {}
    nir = {}
    for ms in (True, False):
        ph.run_mesh(case["mesh"], shift=shift, is_time_reversal=case["tr"], is_mesh_symmetry=ms, is_gamma_center=case["gc"])
        md = ph.get_mesh_dict()
        nir[ms] = len(md["weights"])
        f, w = md["frequencies"], md["weights"]
        if np.abs(f).max() < 1e-6:
            raise RuntimeError("vacuous scenario: flat zero spectrum for %s" % case["xtal"])
        if w.sum() != np.prod(case["mesh"]):
            return dict(ok=False, sig="C09/phys/weight-sum/" + tag, msg="%s mesh=%s: weights sum %d" % (case["xtal"], case["mesh"], w.sum()))
        ph.run_thermal_properties(t_min=0, t_max=900, t_step=300, cutoff_frequency=1e-3)
        tp = ph.get_thermal_properties_dict()
        ph.run_total_dos(sigma=0.3, freq_min=0.0, freq_max=12.0, freq_pitch=0.5, use_tetrahedron_method=False)
        dos = ph.get_total_dos_dict()["total_dos"]
        mom = [float((w[:, None] * np.abs(f) ** k).sum() / w.sum()) for k in (0, 1, 2)]
        # the same sums restricted to subsets of bands (weights must still go with their own q-point)
        nb_ = f.shape[1]
        ph.run_thermal_properties(t_min=0, t_max=900, t_step=300, cutoff_frequency=1e-3, band_indices=[[0, nb_ - 1], [1]] if nb_ > 2 else [[0], [nb_ - 1]])
        tpb = ph.get_thermal_properties_dict()
        res[ms] = np.concatenate([tp["free_energy"], tp["entropy"], tp["heat_capacity"], dos, mom,
                                  np.ravel(tpb["free_energy"]), np.ravel(tpb["entropy"]), np.ravel(tpb["heat_capacity"])])
        if np.prod(case["mesh"]) <= 64 and not case.get("nac"):
            # mode-projected sums: the components add up to the total for the same mesh (eigenvectors are normalised)
            ph.run_mesh(case["mesh"], shift=shift, is_time_reversal=case["tr"], is_mesh_symmetry=ms, is_gamma_center=case["gc"], with_eigenvectors=True)
            ph.run_thermal_properties(t_min=0, t_max=900, t_step=300, cutoff_frequency=1e-3, is_projection=True)
            import tempfile

            import yaml

            with tempfile.TemporaryDirectory(prefix="c09_") as td:
                ph.write_yaml_thermal_properties(filename=os.path.join(td, "tp.yaml"))
                y = yaml.safe_load(open(os.path.join(td, "tp.yaml")))
            for key in ("free_energy", "entropy", "heat_capacity"):
                tot = np.array([np.sum(r[key]) for r in y["projected_thermal_properties"]])
                ref_ = np.array([r[key] for r in y["thermal_properties"]])
                ep = float(np.abs(tot - ref_).max() / max(np.abs(ref_).max(), 1e-9))
                if ep > 2e-6:  # printed with 7 decimals
                    return dict(ok=False, sig="C09/phys/projection-sum/" + tag, resid=ep, nontrivial=True,
                                msg="%s mesh=%s mesh_symmetry=%s: the projected %s summed over components differs from the total by %.3g (rel)" % (case["xtal"], case["mesh"], ms, key, ep))
    scale = np.maximum(np.abs(res[False]), 1e-9)
    e = float((np.abs(res[True] - res[False]) / scale).max())
    nontriv = nir[True] < nir[False]
    # with NAC the Born charges are symmetrised numerically (1e-9 level) before they enter D(q)
    if e > (1e-6 if case.get("nac") else 1e-8):
        return dict(ok=False, sig="C09/phys/reduced-vs-full/" + tag, resid=e, nontrivial=nontriv,
                    msg="%s mesh=%s shift=%s gc=%s tr=%s: sums with mesh symmetry (%d ir-points) differ from the full mesh (%d) by %.3g (rel)" % (
                        case["xtal"], case["mesh"], shift, case["gc"], case["tr"], nir[True], nir[False], e))
    return dict(ok=True, resid=e, nontrivial=nontriv, transitions=2, outcome="ok:phys:%s" % ("reduced" if nontriv else "no-reduction"))


def run_history(case, seed):
    """The same mesh configuration for a sequence of crystals inside one process (replayable as a whole)."""
    n = 0
    for k, name in enumerate(case["sequence"]):
        r = run_grid(dict(case, kind="grid", xtal=name), seed)
        n += 1
        if not r["ok"]:
            r["sig"] = r["sig"].replace("C09/", "C09/history/")
            r["msg"] = "step %d of sequence %s: %s" % (k, case["sequence"][:k + 1], r["msg"])
            return r
    return dict(ok=True, nontrivial=True, transitions=n, outcome="ok:grid-history")


def run_group(cases, seed):
    return [run_grid(c, seed) if c["kind"] == "grid" else (run_history(c, seed) if c["kind"] == "grid-history" else run_phys(c, seed)) for c in cases]
