"""vtk — verification toolkit for the phonopy properties C01..C20 (see /verif/DESIGN.md)."""
