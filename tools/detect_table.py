#!/venv/bin/python
"""Print a markdown table of the kept seeded changes and which checks detect them (from seeded/*/meta.json, as left by
tools/run_seeds_parallel.py / tools/run_seed.py)."""
import glob, json, os, re

rows = []
n = det_own = det_other = missed = 0
for d in sorted(glob.glob("/verif/seeded/C*")):
    m = json.load(open(d + "/meta.json")) if os.path.exists(d + "/meta.json") else {}
    name = os.path.basename(d)
    notes = open(d + "/notes.md").read() if os.path.exists(d + "/notes.md") else ""
    first = next((l.strip("# ").strip() for l in notes.splitlines() if l.strip()), "")
    files = ", ".join(sorted(set(re.findall(r"^diff --git a/(\S+)", open(d + "/patch.diff").read(), re.M))))
    det = m.get("detection", {})
    own = name.split("-")[0]
    parts = []
    hit_own = hit_other = False
    for k, v in sorted(det.items()):
        if v.get("violations") and v.get("rc") == 1:
            sig = re.search(r"sig=(\S+)", v["first"])
            parts.append("%s: **detected** `%s`" % (k.split("/")[0], sig.group(1) if sig else "?"))
            hit_own |= k.startswith(own + "/")
            hit_other |= not k.startswith(own + "/")
        else:
            parts.append("%s: missed" % k.split("/")[0])
    n += 1
    det_own += hit_own
    det_other += (not hit_own) and hit_other
    missed += not (hit_own or hit_other)
    rows.append("| %s | %s | %s | %s |" % (name, files, first[:120].replace("|", "/"), "; ".join(parts)))
print("%d kept changes: %d detected by the check of their own property, %d only by another property's check, %d missed.\n" % (n, det_own, det_other, missed))
print("| change | files | what | quick checks run against it |\n|---|---|---|---|")
print("\n".join(rows))
