"""C15 — a Phonopy object always answers from its current state, whatever its history.

Explicit-state BFS over histories of the public state-changing operations (and queries, which may build
caches) on the real object.  After every transition: (i) a query battery equals that of a freshly constructed
object given the final force constants, NAC parameters and masses; (ii) every array handed in is unmodified;
(iii) every array handed out is overwritten with NaN and the battery repeated (directly and after a rebuild);
(iv) copy() shares no mutable state with its origin.
"""
from __future__ import annotations

import copy
import hashlib
import json

import numpy as np

ID = "C15"
VARIANT = "omp"
ENGINE = "bfs"
TECHNIQUE = ("explicit-state breadth-first search over operation histories of the real Phonopy object (rebuild by replay, "
             "merge on a canonical key of the live object incl. caches); differential oracle against a freshly built object; NaN-poisoning of handed-out arrays")
RULE = ("case = one transition (history + operation) reached by the BFS; non-trivial = history length >= 2 and the object holds "
        "force constants; distinct = distinct history")
ASSUMPTIONS = ["a fresh Phonopy object given copies of the final fc/NAC/masses is the reference for 'current state'",
               "value alphabet is finite (two fc sets, two datasets, two mass sets, three NAC settings, one cutoff radius)"]
BUDGET = {"quick": 900, "thorough": 3400}

XTAL = {"NaCl": ("NaCl-prim-2", [[2, 0, 0], [0, 1, 0], [0, 0, 1]]), "wz": ("wurtzite-4", [[1, 0, 0], [0, 1, 0], [0, 0, 1]]),
        # conventional cell with atoms listed Na,Cl,Na,Cl,... and a primitive matrix: unit-cell, supercell and primitive atoms are
        # related by non-trivial index maps
        "NaClF": ("NaCl-conv-8-interleaved", [[1, 0, 0], [0, 1, 0], [0, 0, 1]], "F"),
        # the same small cell on an object created with the frequency_scale_factor option
        "NaClS": ("NaCl-prim-2", [[2, 0, 0], [0, 1, 0], [0, 0, 1]], None, {"frequency_scale_factor": 1.1})}
NACNAME = {"NaCl-conv-8-interleaved": "NaCl-prim-2"}

OPS = ["fcA", "fcB", "fcAc", "fcV", "dsD1", "dsD2", "dispU", "prodF", "prodC", "gen", "genT", "sym1", "symsg", "cut", "nacN", "nacW", "nacG", "nacG2", "nacE",
       "m0", "m1", "copy", "setF", "qQ", "qQd", "qM", "qMT", "qB"]
QUERIES = ("qQ", "qQd", "qM", "qMT", "qB")
# (root history, depth) per system: searching from non-initial states reaches longer histories at the same cost
ROOTS = {"quick": {"NaCl": [([], 2), (["fcA"], 3), (["fcB", "nacG"], 2)], "wz": [(["fcB"], 2), (["fcA"], 2)], "NaClF": [(["fcA"], 2)], "NaClS": [([], 2), (["fcA", "qQ"], 1)]},
         "thorough": {"NaCl": [([], 3), (["fcA"], 4), (["fcB", "nacG"], 3), (["fcAc", "nacG", "qQ"], 3)], "wz": [([], 2), (["fcB"], 3), (["fcA"], 3)],
                      "NaClF": [([], 2), (["fcA"], 3), (["fcV", "m1"], 3)], "NaClS": [([], 2), (["fcA"], 3), (["fcA", "qQ"], 2)]}}

_env = {}


def _setup(system, seed):
    """Value alphabet for one system (built once per worker)."""
    key = (system, seed)
    if key in _env:
        return _env[key]
    from vtk import phx
    from vtk import scenarios as SC
    from vtk.ref import springs as SP

    name, S = XTAL[system][:2]
    P = XTAL[system][2] if len(XTAL[system]) > 2 else None
    KW = XTAL[system][3] if len(XTAL[system]) > 3 else {}
    c = phx.xtal(name)
    ph = phx.make_phonopy(c, S, P, **KW)
    A = phx.supercell_fc(ph, phx.model_for(ph, "nn", seed))
    B = phx.supercell_fc(ph, phx.model_for(ph, "nn", seed + 17)) * 1.3
    # the second value set is deliberately NOT symmetric (drift + asymmetry), so that the symmetrisers and the cutoff change it
    B = B + 0.03 * np.abs(B).max() * np.random.default_rng(3 + seed).normal(size=B.shape)
    p2s = np.asarray(ph.primitive.p2s_map)
    env = {"c": c, "S": S, "P": P, "KW": KW, "A": A, "B": B, "Ac": A[p2s].copy(), "name": name}
    for tag, dist, fc in (("D1", 0.01, A), ("D2", 0.03, B)):
        phx.quiet(ph.generate_displacements, distance=dist)
        ds = copy.deepcopy(ph.dataset)
        F = SP.forces_for_dataset(fc, ds)
        for d, f in zip(ds["first_atoms"], F):
            d["forces"] = np.array(f)
        env[tag] = ds
    m0 = np.array(ph.masses, float)
    env["m0"] = m0
    env["m1"] = m0 * np.linspace(1.1, 1.6, len(m0))
    nacname = NACNAME.get(name, name)
    env["W"] = SC.nac_params(nacname, "wang")
    env["G"] = SC.nac_params(nacname, "gonze")
    env["G"]["G_cutoff"] = 0.75  # smaller reciprocal sum: same code path, 3-4x cheaper (accuracy is C08's subject)
    G2 = SC.nac_params(nacname, "gonze")
    G2["G_cutoff"] = 0.75
    G2["born"] = G2["born"] * 0.5
    env["G2"] = G2
    L = np.asarray(ph.supercell.cell)
    env["rcut"] = 0.6 * phx.nn_distance({"lattice": c["lattice"], "positions": c["positions"]}) * 2.0
    _env[key] = env
    return env


def _fresh(env, **kw):
    from vtk import phx

    return phx.make_phonopy(env["c"], env["S"], env.get("P"), **dict(env.get("KW") or {}, **kw))


QS = np.array([[0.0, 0, 0], [0.1, 0.2, 0.3], [0.5, 0, 0], [0.0, 0.0, 0.02]])


def battery(ph, lite=False):
    """Small set of answers of the object; None if it has no force constants."""
    if ph.force_constants is None:
        return None
    if lite:
        ph.run_qpoints(QS[1:3], with_dynamical_matrices=True)
        d = ph.get_qpoints_dict()
        return {"freq": np.array(d["frequencies"]), "dm": np.array(d["dynamical_matrices"])}
    gl = _dmclass(ph) == "DynamicalMatrixGL"  # Gonze-Lee: group velocities are finite differences (6 extra D(q) per q)
    qs = QS[:3] if gl else QS
    ph.run_qpoints(qs, with_group_velocities=not gl, with_dynamical_matrices=True)
    d = ph.get_qpoints_dict()
    f1 = np.array(ph.get_frequencies(QS[1]))
    out = {"freq": np.array(d["frequencies"]), "dm": np.array(d["dynamical_matrices"]), "f1": f1}
    if not gl:
        out["gv"] = np.array(d["group_velocities"])
    return out


def _cmp(a, b, tol=1e-9):
    if a is None or b is None:
        return None if (a is None and b is None) else "one side has no answer"
    for k in a:
        x, y = a[k], b[k]
        if x.shape != y.shape:
            return "%s shape" % k
        if not np.isfinite(x).all():
            return "%s not finite" % k
        if k == "freq" or k == "f1":
            x, y = np.sign(x) * x * x, np.sign(y) * y * y
        s = max(np.abs(y).max(), 1e-9)
        if np.abs(x - y).max() / s > tol:
            return "%s differs by %.3g (rel)" % (k, np.abs(x - y).max() / s)
    return None


class Run:
    """Replays a history on a real object and records what the harness handed in."""

    def __init__(self, system, seed):
        self.env = _setup(system, seed)
        self.ph = _fresh(self.env)
        self.inputs = []   # (kind, live array handed to phonopy, pristine copy)
        self.dict_inputs = []  # (kind, live dict handed to phonopy, deep snapshot)
        self.origins = []  # objects that were copied from
        self.modifier = {}  # input kind -> first operation after which the handed-in array differed
        self.error = None

    def give(self, kind, arr):
        a = np.array(arr, dtype="double", order="C")
        self.inputs.append((kind, a, a.copy()))
        return a

    def give_dict(self, kind, d):
        dd = {}
        for k, v in d.items():
            if isinstance(v, np.ndarray):
                dd[k] = self.give(kind + "." + k, v)
            else:
                dd[k] = v
        return dd

    def give_dataset(self, kind, ds):
        d2 = copy.deepcopy(ds)
        for i, d in enumerate(d2["first_atoms"]):
            d["forces"] = self.give(kind + ".forces", d["forces"])
            d["displacement"] = self.give(kind + ".displacement", d["displacement"])
        # the dict itself is an input too: remember its structure and values
        self.dict_inputs.append((kind, d2, copy.deepcopy(d2)))
        return d2

    def enabled(self):
        ph = self.ph
        has_fc = ph.force_constants is not None
        ds = ph.dataset
        has_forces = ds is not None and "first_atoms" in ds and all("forces" in d for d in ds["first_atoms"])
        out = []
        for op in OPS:
            if op in ("sym1", "symsg", "cut", "genT") + QUERIES and not has_fc:
                continue
            if op == "nacE" and ph.nac_params is None:
                continue
            if op == "dispU" and ds is not None and "first_atoms" in ds:
                continue  # phonopy refuses to mix the two dataset types (by design)
            if op == "symsg" and has_fc and ph.force_constants.shape[0] != ph.force_constants.shape[1]:
                continue  # space-group symmetriser is defined for the full layout only
            if op in ("prodF", "prodC") and not has_forces:
                continue
            if op == "setF" and not (ds is not None and "first_atoms" in ds):
                continue
            if op == "dmnacG2" and not (has_fc and ph.nac_params is not None and ph.nac_params.get("method") == "gonze"):
                continue
            out.append(op)
        return out

    def apply(self, op):
        self._apply(op)
        for k, live, pristine in self.inputs:
            if k not in self.modifier and not np.array_equal(live, pristine, equal_nan=True):
                self.modifier[k] = op

    def _apply(self, op):
        from vtk import phx

        ph, env = self.ph, self.env
        if op in ("fcA", "fcB", "fcAc"):
            ph.force_constants = self.give("force_constants", env[{"fcA": "A", "fcB": "B", "fcAc": "Ac"}[op]])
        elif op == "fcV":
            # a view of a caller-owned buffer (what reshape()/slicing of a larger array gives): phonopy must not adopt it
            buf = np.array(env["B"], dtype="double", order="C").ravel().copy()
            view = buf.reshape(env["B"].shape)
            self.inputs.append(("force_constants_view", view, view.copy()))
            self._keep = getattr(self, "_keep", []) + [buf]
            ph.force_constants = view
        elif op in ("dsD1", "dsD2"):
            ph.dataset = self.give_dataset("dataset", env[op[2:]])
            _ = ph.supercells_with_displacements  # the normal workflow reads the displaced cells (builds a cache)
        elif op in ("prodF", "prodC"):
            phx.quiet(ph.produce_force_constants, calculate_full_force_constants=(op == "prodF"), show_drift=False)
        elif op == "setF":
            from vtk.ref import springs as SP

            ph.forces = self.give("forces", SP.forces_for_dataset(env["B"] if env["B"].shape[0] == env["B"].shape[1] else env["A"], ph.dataset))
        elif op == "gen":
            phx.quiet(ph.generate_displacements, distance=0.02)
            _ = ph.supercells_with_displacements
        elif op == "dispU":
            # type-2 displacements assigned through the displacements setter (after the displaced cells may have been read)
            g = np.random.default_rng(9 + len(self.inputs))
            U_ = 0.02 * g.normal(size=(2, len(ph.supercell), 3))
            ph.displacements = self.give("displacements", U_)
            _ = ph.supercells_with_displacements  # the workflow reads the displaced cells (builds a cache)
        elif op == "genT":
            # finite-temperature random displacements from the CURRENT phonons (fixed seed: a fresh object gives the same ones)
            phx.quiet(ph.generate_displacements, number_of_snapshots=2, temperature=300.0, random_seed=7, cutoff_frequency=0.01)
            self.last_genT = True
        elif op == "nacE":
            # the caller edits the dictionary it got from the getter and assigns the same object again
            d = ph.nac_params
            d["born"] = np.array(d["born"], dtype="double") * 0.5
            d["method"] = "wang" if d.get("method") == "gonze" else "gonze"
            if d["method"] == "gonze":
                d["G_cutoff"] = 0.75
            ph.nac_params = d
        elif op == "sym1":
            phx.quiet(ph.symmetrize_force_constants, level=1, show_drift=False)
        elif op == "symsg":
            phx.quiet(ph.symmetrize_force_constants_by_space_group, show_drift=False)
        elif op == "cut":
            ph.set_force_constants_zero_with_radius(env["rcut"])
        elif op == "nacN":
            ph.nac_params = None
        elif op in ("nacW", "nacG", "nacG2"):
            ph.nac_params = self.give_dict("nac_params", env[op[3:]])
        elif op in ("m0", "m1"):
            ph.masses = self.give("masses", env[op])
        elif op == "copy":
            self.origins.append(ph)
            self.ph = phx.quiet(ph.copy)
        elif op == "qQ":
            # the caller's own float array, one point outside [-1/2, 1/2]
            qin = self.give("qpoints", np.array([[0.0, 0, 0], [0.1, 0.2, 0.3], [0.7, 0.2, -0.6]]))
            ph.run_qpoints(qin, with_eigenvectors=True, with_group_velocities=True)
        elif op == "qQd":
            # a query with a symmetry-breaking direction (it may leave the direction behind)
            ph.run_qpoints(QS, with_group_velocities=True, nac_q_direction=[1.0, 0.0, 0.0])
        elif op == "qMT":
            # mesh + thermal properties with the rarely used option that folds imaginary modes
            ph.run_mesh([2, 2, 2])
            ph.run_thermal_properties(t_min=0, t_max=300, t_step=150, pretend_real=True)
        elif op == "qM":
            ph.run_mesh([2, 2, 2], with_group_velocities=True)
        elif op == "qB":
            ph.run_band_structure([[[0, 0, 0], [0.25, 0, 0], [0.5, 0, 0]]], with_group_velocities=True)
        elif op == "dmnacG2":
            ph.dynamical_matrix.nac_params = self.give_dict("dm.nac_params", env["G2"])
            self.dm_nac_override = True
        else:
            raise ValueError(op)


def canon(run):
    """Canonical key of the live object (fields that can influence any future answer)."""
    ph = run.ph
    h = hashlib.sha256()

    def add(x):
        h.update(repr(x).encode())

    fc = ph.force_constants
    add(None if fc is None else (fc.shape, np.round(fc, 8).tobytes()))
    nac = ph.nac_params
    add(None if nac is None else (nac.get("method"), np.round(nac["born"], 8).tobytes(), np.round(nac["dielectric"], 8).tobytes(), nac.get("factor")))
    add(np.round(ph.masses, 8).tobytes())
    ds = ph.dataset
    if ds is None:
        add(None)
    else:
        if "first_atoms" in ds:
            add([(d["number"], np.round(d["displacement"], 9).tobytes(), None if "forces" not in d else np.round(d["forces"], 9).tobytes()) for d in ds["first_atoms"]])
        else:
            add(("type2", np.round(np.asarray(ds["displacements"]), 7).tobytes(), "forces" in ds))
    dm = getattr(ph, "_dynamical_matrix", None)
    add(type(dm).__name__)
    if dm is not None and hasattr(dm, "_Gonze_force_constants"):
        add(dm._Gonze_force_constants is not None)
        dn = dm.nac_params if hasattr(dm, "nac_params") else None
        add(None if dn is None else np.round(dn["born"], 8).tobytes())
    for attr in ("_mesh", "_band_structure", "_qpoints", "_group_velocity", "_supercells_with_displacements", "_pdos", "_total_dos", "_thermal_properties", "_random_displacements"):
        add(getattr(ph, attr, None) is not None)
    add(len(run.origins) > 0)
    # which arrays of the caller the object currently shares memory with (part of the state of caller + object)
    shared = set()
    for k, live, _ in run.inputs:
        for nm, internal in (("fc", fc), ("masses", getattr(ph.primitive, "_masses", None)), ("born", None if nac is None else nac["born"])):
            if isinstance(internal, np.ndarray) and np.shares_memory(internal, live):
                shared.add((k, nm))
    add(sorted(shared))
    return h.hexdigest()[:20]


def handed_out(ph):
    """(name, array) for every ndarray reachable through a public getter."""
    out = []
    fc = ph.force_constants
    if fc is not None:
        out.append(("force_constants", fc))
    out.append(("masses", ph.masses))
    nac = ph.nac_params
    if nac is not None:
        out.append(("nac_params.born", nac["born"]))
        out.append(("nac_params.dielectric", nac["dielectric"]))
    ds = ph.dataset
    if ds is not None and "first_atoms" in ds:
        for d in ds["first_atoms"][:1]:
            out.append(("dataset.displacement", d["displacement"]))
            if "forces" in d:
                out.append(("dataset.forces", d["forces"]))
    for nm, cell in (("unitcell", ph.unitcell), ("supercell", ph.supercell), ("primitive", ph.primitive)):
        out.append((nm + ".cell", cell.cell))
        out.append((nm + ".scaled_positions", cell.scaled_positions))
        out.append((nm + ".masses", cell.masses))
    if getattr(ph, "_qpoints", None) is not None:
        d = ph.get_qpoints_dict()
        out.append(("qpoints_dict.frequencies", d["frequencies"]))
    dm = ph.dynamical_matrix
    if dm is not None:
        out.append(("dynamical_matrix.force_constants", dm.force_constants))
    out.append(("supercell_matrix", ph.supercell_matrix))
    out.append(("primitive_matrix", ph.primitive_matrix))
    return [(n, a) for n, a in out if isinstance(a, np.ndarray)]


def step(args):
    system, seed, hist = args
    return run_history(system, seed, hist)


def run_history(system, seed, hist, check=True):
    run = Run(system, seed)
    tag = hist[-1] if hist else "init"
    nontriv = False
    try:
        for op in hist:
            if op not in run.enabled():
                return dict(ok=True, skipped="operation not enabled in this state")
            run.apply(op)
    except Exception as e:
        import traceback

        return dict(ok=False, sig="C15/raised/%s" % tag, msg="history %s: %s: %s" % (hist, type(e).__name__, traceback.format_exc()[-400:]))
    ph, env = run.ph, run.env
    has_fc = ph.force_constants is not None
    nontriv = bool(len(hist) >= 2 and has_fc)
    key = canon(run)
    res = dict(ok=True, key=key, enabled=run.enabled(), nontrivial=nontriv, transitions=len(hist), outcome="ok:" + ("fc" if has_fc else "nofc"))
    if not check:
        return res

    fails = []

    def fail(kind, msg):
        fails.append(dict(ok=False, sig="C15/%s" % kind, msg="history %s: %s" % (hist, msg), nontrivial=nontriv, transitions=len(hist)))
        return None

    def done():
        res["failures"] = fails
        return res

    # (i) answers equal those of a fresh object given the final state
    try:
        got = battery(ph)
    except Exception as e:
        fail("battery-raised/%s" % tag, "%s: %s" % (type(e).__name__, str(e)[:200]))
        return done()
    if has_fc:
        fr = _fresh(env)
        fr.masses = np.array(ph.masses, float).copy()
        fr.force_constants = np.array(ph.force_constants, dtype="double", order="C").copy()
        if getattr(run, "dm_nac_override", False) and hist[-1] == "dmnacG2":
            nacfinal = copy.deepcopy(env["G2"])
        else:
            nacfinal = copy.deepcopy(ph.nac_params)
        if nacfinal is not None:
            fr.nac_params = nacfinal
        want = battery(fr)
        # NAC override on the dynamical-matrix object is only "current" until the next rebuild; judge it right after
        if getattr(run, "dm_nac_override", False) and hist[-1] != "dmnacG2":
            pass
        bad = _cmp(got, want)
        if bad and not (getattr(run, "dm_nac_override", False) and hist[-1] != "dmnacG2"):
            last_state_op = next((o for o in reversed(hist) if o not in QUERIES), "?")
            fail("stale/%s-after-%s" % (_dmclass(ph), last_state_op), "answers differ from a fresh object with the same fc/NAC/masses: %s" % bad)
        # setter semantics against the value alphabet
        exp = _expected_values(hist, env)
        if exp.get("masses") is not None and np.abs(np.asarray(ph.masses) - exp["masses"]).max() > 1e-12:
            fail("setter/masses", "masses getter does not return what was set")
        if "fc" in exp and exp["fc"] is not None and (ph.force_constants.shape != exp["fc"].shape or np.abs(ph.force_constants - exp["fc"]).max() > 1e-12):
            fail("setter/force_constants", "force_constants getter does not return what was set")
    # (vii) results the object still holds from earlier queries are those of a fresh object asked the same thing
    if has_fc and getattr(ph, "_mesh", None) is not None:
        try:
            fm = np.array(ph.get_mesh_dict()["frequencies"])
            meshnum = [int(x) for x in ph.mesh.mesh_numbers]
            fr2 = _fresh(env)
            fr2.masses = np.array(ph.masses, float).copy()
            fr2.force_constants = np.array(ph.force_constants, dtype="double", order="C").copy()
            if ph.nac_params is not None:
                fr2.nac_params = copy.deepcopy(ph.nac_params)
            last_mesh = max((i for i, o in enumerate(hist) if o in ("qM", "qMT")), default=-1)
            if last_mesh >= 0 and not any(o not in QUERIES and o != "copy" for o in hist[last_mesh + 1:]):
                fr2.run_mesh(meshnum, with_group_velocities=(hist[last_mesh] == "qM"))
                fw = np.array(fr2.get_mesh_dict()["frequencies"])
                if fm.shape != fw.shape or np.abs(np.sign(fm) * fm * fm - np.sign(fw) * fw * fw).max() > 1e-9 * max(np.abs(fw).max() ** 2, 1e-12):
                    fail("stale/mesh-results-changed-by-%s" % next((o for o in reversed(hist[last_mesh:]) if o in QUERIES), "?"),
                         "the mesh frequencies held by the object differ from run_mesh on a fresh object (a later query wrote into them)")
        except Exception as e:
            fail("raised/mesh-dict", "%s: %s" % (type(e).__name__, str(e)[:200]))
    if has_fc and hist and hist[-1] == "genT":
        try:
            from vtk import phx

            fr3 = _fresh(env)
            fr3.masses = np.array(ph.masses, float).copy()
            fr3.force_constants = np.array(ph.force_constants, dtype="double", order="C").copy()
            if ph.nac_params is not None:
                fr3.nac_params = copy.deepcopy(ph.nac_params)
            phx.quiet(fr3.generate_displacements, number_of_snapshots=2, temperature=300.0, random_seed=7, cutoff_frequency=0.01)
            a, b = np.array(ph.dataset["displacements"]), np.array(fr3.dataset["displacements"])
            if a.shape != b.shape or np.abs(a - b).max() > 1e-7 * max(np.abs(b).max(), 1e-12):
                fail("stale/random-displacements", "finite-temperature displacements (fixed seed) differ from those of a fresh object with the same fc/NAC/masses by %.3g (rel)" % (
                    np.abs(a - b).max() / max(np.abs(b).max(), 1e-12) if a.shape == b.shape else -1))
        except Exception as e:
            fail("raised/random-displacements", "%s: %s" % (type(e).__name__, str(e)[:200]))
    # (vi) the masses of the three cells describe the same atoms (unit-cell / supercell atom -> primitive atom by geometry)
    try:
        bad = _mass_maps(ph)
        if bad:
            fail("masses-inconsistent-between-cells", bad)
    except Exception as e:
        fail("raised/masses", "%s: %s" % (type(e).__name__, str(e)[:200]))
    # (v) displaced supercells handed out agree with the current dataset (reading them builds a cache)
    try:
        ds = ph.dataset
        if ds is not None and "displacements" in ds:
            scs = ph.supercells_with_displacements
            base = ph.supercell.positions
            U2 = np.asarray(ds["displacements"])
            if scs is None or len(scs) != len(U2):
                fail("stale/supercells_with_displacements", "number of displaced supercells %s != number of displacement sets %d" % (None if scs is None else len(scs), len(U2)))
            else:
                for sc_, u_ in zip(scs, U2):
                    if np.abs((sc_.positions - base) - u_).max() > 1e-9:
                        fail("stale/supercells_with_displacements", "displaced supercell does not match the current (type-2) displacements (max dev %.3g)" % np.abs((sc_.positions - base) - u_).max())
                        break
        if ds is not None and "first_atoms" in ds:
            scs = ph.supercells_with_displacements
            base = ph.supercell.positions
            if scs is None or len(scs) != len(ds["first_atoms"]):
                fail("stale/supercells_with_displacements", "number of displaced supercells %s != number of displacements %d" % (None if scs is None else len(scs), len(ds["first_atoms"])))
            else:
                for sc_, d_ in zip(scs, ds["first_atoms"]):
                    u = sc_.positions - base
                    w = np.zeros_like(u)
                    w[d_["number"]] = d_["displacement"]
                    if np.abs(u - w).max() > 1e-9:
                        fail("stale/supercells_with_displacements", "displaced supercell does not match the dataset's displacement (max dev %.3g)" % np.abs(u - w).max())
                        break
    except Exception as e:
        fail("raised/supercells_with_displacements", "%s: %s" % (type(e).__name__, str(e)[:200]))
    # (ii) arrays handed in are unmodified
    for kind, live, pristine in run.inputs:
        if not np.array_equal(live, pristine, equal_nan=True):
            modifier = run.modifier.get(kind, "query")
            fail("alias-in/%s/modified-by-%s" % (kind, modifier), "array handed in as %s was modified (max change %.3g)" % (kind, np.nanmax(np.abs(live - pristine))))
    for kind, live, snap in run.dict_inputs:
        okd = live.keys() == snap.keys() and len(live.get("first_atoms", [])) == len(snap.get("first_atoms", []))
        if okd:
            for a, b in zip(live["first_atoms"], snap["first_atoms"]):
                if a.keys() != b.keys() or any(not np.array_equal(np.asarray(a[k_]), np.asarray(b[k_])) for k_ in a):
                    okd = False
                    break
        if not okd:
            fail("alias-in/%s-dict" % kind, "the dataset dictionary handed in by the caller was modified (entries rewritten through a shared reference)")
    # (iii) arrays handed out do not alias internal state.  State-carrying getters are tried after every
    # transition, structural getters (cells, matrices) for histories of length <= 1 (they do not depend on history).
    if has_fc and (not hist or hist[-1] not in QUERIES or len(hist) <= 2):
        names = [n for n, a in handed_out(ph)]
        got_lite = battery(ph, lite=True)
        core = ("force_constants", "masses", "nac_params", "dataset", "qpoints_dict", "dynamical_matrix")
        for name in names:
            if len(hist) > 2 and not name.startswith(core):
                continue
            arr = dict(handed_out(ph)).get(name)
            if arr is None or not arr.flags.writeable or arr.dtype.kind not in "fc":
                continue
            saved = arr.copy()
            arr[...] = np.nan
            try:
                after = battery(ph, lite=True)
                bad = _cmp(after, got_lite, 1e-9)
                if bad is None:
                    # rebuild internal objects through a public setter with the same value, then ask again
                    ph.masses = (saved.copy() if name == "masses" else np.array(ph.masses, float).copy())
                    bad = _cmp(battery(ph, lite=True), got_lite, 1e-9)
            except Exception as e:
                bad = "raised %s" % type(e).__name__
            if bad:
                fail("alias-out/%s" % name, "overwriting the array returned by %s changes later answers (%s)" % (name, bad))
                # the object is damaged now: try to repair through the alias and a rebuild, else rebuild by replay
                repaired = False
                try:
                    arr[...] = saved
                    ph.masses = np.array(ph.masses, float).copy()
                    repaired = _cmp(battery(ph, lite=True), got_lite, 1e-9) is None
                except Exception:
                    repaired = False
                if not repaired:
                    run2 = Run(system, seed)
                    for op in hist:
                        run2.apply(op)
                    run, ph = run2, run2.ph
    # (iv) copy() independence
    if hist and hist[-1] == "copy" and run.origins:
        org = run.origins[-1]
        m_before = np.array(ph.masses).copy()
        pos_before = ph.unitcell.scaled_positions.copy()
        org.masses = np.array(org.masses) * 3.0
        for cell in (org.unitcell, org.supercell, org.primitive):
            try:
                cell._scaled_positions[...] = 0.123
                cell._cell[...] = 9.0
            except Exception:
                pass
        if np.abs(np.array(ph.masses) - m_before).max() > 0 or np.abs(ph.unitcell.scaled_positions - pos_before).max() > 0 \
                or np.abs(ph.supercell.cell - np.asarray(_fresh(env).supercell.cell)).max() > 1e-12:
            fail("copy-shares-state", "mutating the original after copy() changes the copy")
    return done()


def _mass_maps(ph):
    """Every atom of the unit cell and of the supercell carries the mass of the primitive atom it is a lattice translate of."""
    pr = ph.primitive
    Lp = np.asarray(pr.cell)
    pp = np.asarray(pr.positions)
    for nm, cell in (("unitcell", ph.unitcell), ("supercell", ph.supercell)):
        pos = np.asarray(cell.positions)
        for i in range(len(cell)):
            fr = (pos[i][None, :] - pp) @ np.linalg.inv(Lp)
            j = np.where(np.abs(fr - np.rint(fr)).max(axis=1) < 1e-5)[0]
            if len(j) != 1:
                return "%s atom %d is a lattice translate of %d primitive atoms" % (nm, i, len(j))
            if abs(cell.masses[i] - pr.masses[j[0]]) > 1e-12 * max(1.0, abs(pr.masses[j[0]])):
                return "%s atom %d (%s) has mass %r but its primitive atom %d has %r" % (nm, i, cell.symbols[i], cell.masses[i], j[0], pr.masses[j[0]])
    return None


def _dmclass(ph):
    dm = getattr(ph, "_dynamical_matrix", None)
    return type(dm).__name__


def _expected_values(hist, env):
    """What the last setter of each kind handed in (only when no later operation transforms it)."""
    exp = {}
    m = "m0"
    fc = None
    fc_valid = False
    for op in hist:
        if op in ("m0", "m1"):
            m = op
        if op in ("fcA", "fcB", "fcAc", "fcV"):
            fc = env[{"fcA": "A", "fcB": "B", "fcAc": "Ac", "fcV": "B"}[op]]
            fc_valid = True
        if op in ("prodF", "prodC", "sym1", "symsg", "cut", "copy"):
            fc_valid = False
        if op == "copy":
            m = None
    if m is not None:
        exp["masses"] = env[m]
    if fc_valid:
        exp["fc"] = fc
    return exp


def _who_modified(system, seed, hist, kind):
    """Replay and find the first operation after which the handed-in array of `kind` differs."""
    run = Run(system, seed)
    for op in hist:
        run.apply(op)
        for k, live, pristine in run.inputs:
            if k == kind and not np.array_equal(live, pristine, equal_nan=True):
                return op
    try:
        battery(run.ph)
    except Exception:
        pass
    return "query"


_W = {}


def _winit(seed):
    import os
    import warnings

    warnings.simplefilter("ignore")
    os.environ.setdefault("OMP_NUM_THREADS", "1")
    from vtk import build

    build.load(VARIANT)
    _W["seed"] = seed


def _wstep(system_hist):
    system, hist = system_hist
    return run_history(system, _W["seed"], hist)


class _Step:
    def __init__(self, system):
        self.system = system

    def __call__(self, hist):
        return run_history(self.system, _W["seed"], hist)


def explore(tier, seed, nproc, budget):
    from vtk import bfs

    groups = []
    results = {}
    meta = {"alphabet": {"operations": OPS, "systems": list(XTAL), "roots_and_depths": ROOTS[tier]}, "bound": "", "exhaustive": True,
            "not_covered": ["histories longer than the depth bound unless the search closed", "type-2 datasets", "random displacements / MLP state"]}
    capped = False
    levels = {}
    import time as _time

    t_start = _time.time()
    for system in XTAL:
        levels[system] = []
        for root, depth in ROOTS[tier][system]:
            trans, stats = bfs.bfs(_Step(system), "root", OPS, depth, nproc, _winit, (seed,), budget_s=max(30.0, budget - (_time.time() - t_start)), chunk=2, root=root)
            stats["root"] = root
            stats["depth"] = depth
            levels[system].append(stats)
            capped = capped or stats["capped"]
            for hist, res in trans:
                r = dict(res)
                r.pop("enabled", None)
                fl = r.pop("failures", [])
                if not fl:
                    groups.append([{"system": system, "history": hist}])
                    results[len(groups) - 1] = [r]
                for f in fl:
                    groups.append([{"system": system, "history": hist, "focus": f["sig"]}])
                    results[len(groups) - 1] = [f]
    meta["bound"] = "all histories root+<=depth over %d operations from each (root, depth) of %s, merged on the canonical key; %s" % (
        len(OPS), json.dumps(ROOTS[tier]), json.dumps({s: [{"root": v["root"], "states": v["states"], "closed": v["closed"], "levels": v["levels"]} for v in vs] for s, vs in levels.items()}))
    meta["bfs"] = levels
    return groups, results, meta, capped


def run_group(cases, seed):
    """Replay entry point (plain re-execution of one history, no explorer)."""
    out = []
    for c in cases:
        r = run_history(c["system"], seed, c["history"])
        r.pop("enabled", None)
        fl = r.pop("failures", [])
        if c.get("focus"):
            f = next((f for f in fl if f["sig"] == c["focus"]), None)
            out.append(f if f else r)
        else:
            out.append(fl[0] if fl else r)
    return out
