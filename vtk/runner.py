"""Explorer driver shared by all checks: enumerate -> execute on the real code -> judge -> evidence.

A check module provides
    ID            property id
    VARIANT       extension variant loaded in workers ('omp' default; None = no extension)
    plan(tier, seed) -> (groups, meta)   groups: list of lists of JSON-able case dicts
    run_group(cases, seed) -> list of result dicts (one per case, same order)
    RULE, ASSUMPTIONS, TECHNIQUE
A result dict has: ok(bool), and optionally sig, msg, nontrivial(bool), outcome(str),
transitions(int), resid(float), skipped(str), extra counters under 'count' (dict of ints).
"""

from __future__ import annotations

import hashlib
import importlib
import json
import multiprocessing as mp
import os
import subprocess
import sys
import time
import traceback

VERIF = os.path.dirname(os.path.dirname(os.path.abspath(__file__)))
EVIDENCE_SCHEMA = "/root/.vp/EVIDENCE.schema.json"


def seed_from_env() -> int:
    try:
        return int(os.environ.get("VERIF_SEED", "0"))
    except ValueError:
        return 0


def load_check(cid: str):
    return importlib.import_module("checks.%s" % cid.lower())


_mod = None
_seed = 0


def _init(cid, seed):
    global _mod, _seed
    os.environ.setdefault("OMP_NUM_THREADS", "1")
    import warnings

    warnings.simplefilter("ignore")
    _mod = load_check(cid)
    _seed = seed
    variant = getattr(_mod, "VARIANT", "omp")
    if variant:
        from vtk import build

        build.load(variant)
    else:
        from vtk import build

        if sys.path[0] != build.REPO:
            sys.path.insert(0, build.REPO)
    if hasattr(_mod, "worker_init"):
        _mod.worker_init()


_HIST = []  # groups this worker process ran before (a failure may depend on what the process did earlier)
WORKER_HISTORY = {}


def _work(item):
    gi, cases = item
    t0 = time.time()
    prior = list(_HIST)
    _HIST.append(gi)
    r = _work1(gi, cases, t0)
    return r[0], r[1], r[2], (r[3], prior)


def _work1(gi, cases, t0):
    try:
        res = _mod.run_group(cases, _seed)
        if len(res) != len(cases):
            raise RuntimeError("run_group returned %d results for %d cases" % (len(res), len(cases)))
    except BaseException as e:  # harness error, not a verdict
        return gi, None, "".join(traceback.format_exception(type(e), e, e.__traceback__)), time.time() - t0
    return gi, res, None, time.time() - t0


def case_hash(case) -> str:
    return hashlib.sha256(json.dumps(case, sort_keys=True, default=str).encode()).hexdigest()[:12]


def load_known():
    p = os.path.join(VERIF, "known_findings.json")
    if not os.path.exists(p):
        return []
    with open(p) as f:
        return json.load(f).get("findings", [])


def write_replay(cid, case, seed, res):
    d = os.path.join(os.environ.get("VT_REPLAY_DIR", os.path.join(VERIF, "replays")), cid)
    os.makedirs(d, exist_ok=True)
    p = os.path.join(d, case_hash(case) + ".json")
    with open(p, "w") as f:
        json.dump({"property": cid, "seed": seed, "case": case, "sig": res.get("sig"), "msg": res.get("msg"),
                   "resid": res.get("resid")}, f, indent=1, default=str)
    return p


def confirm_in_fresh_process(path) -> int:
    try:
        r = subprocess.run([sys.executable, "-m", "vtk.cli", "replay", path, "--quiet"], cwd=VERIF,
                           capture_output=True, text=True, timeout=float(os.environ.get("VT_GROUP_TIMEOUT_S", "600")))
    except subprocess.TimeoutExpired:
        return -999
    return r.returncode


def validate_evidence(ev):
    try:
        import jsonschema
    except ImportError:
        return
    with open(EVIDENCE_SCHEMA) as f:
        schema = json.load(f)
    jsonschema.validate(ev, schema)



def _group_subprocess(cid, seed, cases, timeout):
    """Run cases in a fresh process.  Returns (results|None, rc, stderr_tail)."""
    import tempfile

    with tempfile.TemporaryDirectory(prefix="vtgrp_") as td:
        inp = os.path.join(td, "in.json")
        outp = os.path.join(td, "out.json")
        with open(inp, "w") as f:
            json.dump({"property": cid, "seed": seed, "cases": cases}, f, default=str)
        try:
            r = subprocess.run([sys.executable, "-m", "vtk.cli", "rungroup", inp, outp], cwd=VERIF, capture_output=True,
                               text=True, timeout=timeout)
        except subprocess.TimeoutExpired:
            return None, "timeout", ""
        if r.returncode == 0 and os.path.exists(outp):
            with open(outp) as f:
                return json.load(f), 0, ""
        return None, r.returncode, r.stderr[-600:]


def _run_isolated(cid, seed, todo, nthreads):
    from concurrent.futures import ThreadPoolExecutor

    timeout = float(os.environ.get("VT_GROUP_TIMEOUT_S", "600"))

    def one(it):
        gi, cases = it
        res, rc, err = _group_subprocess(cid, seed, cases, timeout)
        if res is not None:
            return gi, res, None
        if rc == 2:
            return gi, None, "isolated group failed with a harness error: %s" % err
        # crashed or hung: find the first single case that does it
        out = []
        found = False
        for c in cases:
            if found:
                out.append(dict(ok=True, skipped="not run: an earlier case of this group crashed the process"))
                continue
            r1, rc1, err1 = _group_subprocess(cid, seed, [c], timeout)
            if r1 is not None:
                out.append(r1[0])
            elif rc1 == 2:
                return gi, None, "isolated case failed with a harness error: %s" % err1
            else:
                found = True
                what = "hang (no result within %gs)" % timeout if rc1 == "timeout" else "process died with status %s" % rc1
                out.append(dict(ok=False, sig="%s/crash" % cid, msg="the code under test killed the process: %s %s" % (what, err1[-200:]),
                                nontrivial=True))
        if not found:
            # no single case kills the process, the group as a whole did: the crash depends on what ran before inside the
            # group.  Find the shortest crashing prefix (bisection; a longer prefix of a crashing prefix crashes too).
            lo, hi = 1, len(cases)  # prefix lengths: lo-1 known good (single cases pass), hi = whole group (crashed)
            r_hi, rc_hi, err_hi = _group_subprocess(cid, seed, cases, timeout)
            if r_hi is not None:
                return gi, None, "group crashed in the pool and once in isolation but not when run again (rc=%s): %s" % (rc, err)
            good = None
            while lo < hi:
                mid = (lo + hi) // 2
                r_m, rc_m, err_m = _group_subprocess(cid, seed, cases[:mid], timeout)
                if r_m is None and rc_m != 2:
                    hi = mid
                else:
                    lo = mid + 1
                    good = r_m
            k = hi - 1  # cases[:k] run through, case k dies after them
            if good is None or len(good) < k:
                good, _, _ = _group_subprocess(cid, seed, cases[:k], timeout) if k else ([], 0, "")
            if good is None:
                return gi, None, "crashing prefix of the group is not stable (rc=%s): %s" % (rc, err)
            out = list(good[:k])
            out.append(dict(ok=False, sig="%s/crash" % cid, nontrivial=True,
                            msg="the code under test killed the process (status %s) when this case ran after the %d cases before it in its group" % (rc_hi, k)))
            out += [dict(ok=True, skipped="not run: an earlier case of this group crashed the process")] * (len(cases) - k - 1)
        return gi, out, None

    with ThreadPoolExecutor(max_workers=nthreads) as tp:
        return list(tp.map(one, todo))


def run_group_file(inp, outp) -> int:
    with open(inp) as f:
        d = json.load(f)
    _init(d["property"], int(d["seed"]))
    try:
        res = _mod.run_group(d["cases"], int(d["seed"]))
    except BaseException:
        traceback.print_exc()
        return 2
    with open(outp, "w") as f:
        json.dump(res, f, default=str)
    return 0

def run_check(cid: str, tier: str) -> int:
    t0 = time.time()
    seed = seed_from_env()
    mod = load_check(cid)
    variant = getattr(mod, "VARIANT", "omp")
    from vtk import build

    for v in getattr(mod, "VARIANTS_NEEDED", [variant] if variant else []):
        build.ensure(v)
    if hasattr(mod, "selfcheck"):
        mod.selfcheck()  # oracle self-consistency; raises -> exit 2
    budget = float(os.environ.get("VT_BUDGET_S", getattr(mod, "BUDGET", {}).get(tier, 1e9)))
    nproc = int(os.environ.get("VT_JOBS", str(min(16, os.cpu_count() or 1))))
    if hasattr(mod, "explore"):
        # state-space search driven by the check itself (BFS over histories); it returns the explored
        # transitions as single-case groups with their results
        return _finish(cid, tier, seed, mod, t0, *mod.explore(tier, seed, nproc, budget))
    groups, meta = mod.plan(tier, seed)
    nproc = max(1, min(nproc, len(groups)))
    results = {}
    harness_errors = []
    capped = False
    items = list(enumerate(groups))
    from concurrent.futures import ProcessPoolExecutor, as_completed
    from concurrent.futures.process import BrokenProcessPool

    ctx = mp.get_context("fork")
    broken = False
    ex = ProcessPoolExecutor(max_workers=nproc, mp_context=ctx, initializer=_init, initargs=(cid, seed))
    try:
        futs = {ex.submit(_work, it): it[0] for it in items}
        for fu in as_completed(futs):
            try:
                gi, res, err, (wall, prior) = fu.result()
                WORKER_HISTORY[gi] = prior
            except BrokenProcessPool:
                broken = True
                break
            if err is not None:
                harness_errors.append((gi, err))
            else:
                results[gi] = res
            if time.time() - t0 > budget:
                capped = True
                break
    finally:
        procs = list((getattr(ex, "_processes", None) or {}).values())
        ex.shutdown(wait=False, cancel_futures=True)
        if broken or capped:
            for pr in procs:
                try:
                    pr.kill()
                except Exception:
                    pass
    if broken:
        # a worker died (segfault / abort inside the code under test).  Re-run every unfinished group in its own
        # process; a group that kills its process is narrowed down to single cases; a reproducible crash is a verdict.
        todo = [it for it in items if it[0] not in results and it[0] not in dict(harness_errors)]
        crash_results = _run_isolated(cid, seed, todo, min(nproc, 16))
        for gi, res, err in crash_results:
            if err is not None:
                harness_errors.append((gi, err))
            else:
                results[gi] = res
    if harness_errors:
        gi, err = harness_errors[0]
        sys.stderr.write("HARNESS ERROR in %s group %d (case0=%s):\n%s\n" % (
            cid, gi, json.dumps(groups[gi][0], default=str)[:400], err))
        return 2
    return _finish(cid, tier, seed, mod, t0, groups, results, meta, capped)


def _finish(cid, tier, seed, mod, t0, groups, results, meta, capped):
    n_eval = 0
    n_trans = 0
    nontrivial = set()
    states = set()
    outcomes = {}
    counts = {}
    skipped = {}
    fails = []
    max_resid = 0.0
    samples = []
    for gi in sorted(results):
        for case, r in zip(groups[gi], results[gi]):
            if r.get("skipped"):
                skipped[r["skipped"]] = skipped.get(r["skipped"], 0) + 1
                continue
            n_eval += 1
            h = case_hash(case)
            states.add(h)
            n_trans += int(r.get("transitions", 1))
            if r.get("nontrivial", True):
                nontrivial.add(h)
            oc = r.get("outcome", "ok" if r["ok"] else "fail")
            outcomes[oc] = outcomes.get(oc, 0) + 1
            for k, v in (r.get("count") or {}).items():
                counts[k] = counts.get(k, 0) + int(v)
            if r.get("resid") is not None and r["ok"]:
                max_resid = max(max_resid, float(r["resid"]))
            if not r["ok"]:
                fails.append((case, r))
            elif len(samples) < 2 or (r.get("nontrivial", True) and len(samples) < 4):
                samples.append({"case": case, "outcome": oc, "resid": r.get("resid")})
    # the largest case explored, by json length, as a sample
    if results:
        big = max(((c, r) for gi in results for c, r in zip(groups[gi], results[gi]) if not r.get("skipped")),
                  key=lambda cr: len(json.dumps(cr[0], default=str)), default=None)
        if big:
            samples.append({"case": big[0], "outcome": big[1].get("outcome", "ok" if big[1]["ok"] else "fail"),
                            "note": "largest case id"})

    # adjudicate failures
    known = [k for k in load_known() if k.get("property") == cid and k.get("status", "known") == "known"]
    by_sig = {}
    for case, r in fails:
        by_sig.setdefault(r.get("sig") or "unsigned", []).append((case, r))
    printed_known = []
    new_violations = []
    unreproduced = []
    group_of = {}
    for gi in results:
        for ci, case in enumerate(groups[gi]):
            group_of[case_hash(case)] = (gi, ci)
    for sig, lst in sorted(by_sig.items()):
        match = next((k for k in known if k["signature"] == sig), None)
        if match:
            printed_known.append((match, len(lst)))
            continue
        lst.sort(key=lambda cr: len(json.dumps(cr[0], default=str)))
        confirmed = False
        for case, r in lst[:3]:
            path = write_replay(cid, case, seed, r)
            rc = confirm_in_fresh_process(path)
            if rc == 1 or (rc < 0 and rc != -999) or (sig.endswith("/crash") and rc not in (0, 2)):
                # rc < 0: the fresh process was killed by a signal (segfault/abort inside the code under test) while replaying
                # the failing case: a reproducible crash is a verdict, not a harness problem
                new_violations.append((sig if (rc >= 0 or rc == -999 or sig.endswith("/crash")) else sig + "/crash-on-replay", path, r, len(lst)))
                confirmed = True
                break
            if rc == 0:
                # not reproducible on its own: the verdict may depend on what the process did before (a cache, a global).
                # Replay the cases that preceded it in its group, in a fresh process.
                gi, ci = group_of.get(case_hash(case), (None, None))
                if gi is not None and ci > 0:
                    with open(path) as f:
                        rp = json.load(f)
                    rp["prefix_cases"] = groups[gi][:ci]
                    with open(path, "w") as f:
                        json.dump(rp, f, indent=1, default=str)
                    rc2 = confirm_in_fresh_process(path)
                    if rc2 == 1:
                        new_violations.append((sig + "/history-dependent", path, r, len(lst)))
                        confirmed = True
                        break
                # still not reproducible: replay everything the worker process had run before this case
                if gi is not None and WORKER_HISTORY.get(gi):
                    with open(path) as f:
                        rp = json.load(f)
                    rp["prefix_groups"] = [groups[g] for g in WORKER_HISTORY[gi]]
                    rp["prefix_cases"] = groups[gi][:ci]
                    with open(path, "w") as f:
                        json.dump(rp, f, indent=1, default=str)
                    rc3 = confirm_in_fresh_process(path)
                    if rc3 == 1:
                        new_violations.append((sig + "/history-dependent", path, r, len(lst)))
                        confirmed = True
                        break
                continue
            sys.stderr.write("HARNESS ERROR: replay of %s failed with rc=%d\n" % (path, rc))
            return 2
        if not confirmed:
            unreproduced.append((sig, len(lst), lst[0][1].get("msg", "")[:200]))
    if unreproduced:
        for sig, n, msg in unreproduced:
            sys.stderr.write("UNREPRODUCED: %s (%d cases) failed inside the exploration but not when replayed in a fresh process: %s\n" % (sig, n, msg))
        if not new_violations:
            sys.stderr.write("HARNESS ERROR: failures that do not reproduce and no reproducible violation\n")
            return 2
    for k, n in printed_known:
        print("KNOWN-FINDING: property=%s %s [%s] (%d cases)" % (cid, k["what"], k["signature"], n))
    for sig, path, r, n in new_violations:
        print("VIOLATION property=%s replay=%s sig=%s cases=%d :: %s" % (cid, path, sig, n, (r.get("msg") or "")[:300]))

    wall = time.time() - t0
    cov = {
        "states": len(states),
        "transitions": n_trans,
        "traces_validated_against_impl": n_eval,
        "evaluations": n_eval,
        "distinct_nontrivial": len(nontrivial),
        "rule": getattr(mod, "RULE", ""),
        "samples": samples[:6],
        "exhaustive": bool(meta.get("exhaustive", True)) and not capped,
        "capped_by_time_budget": capped,
        "groups_planned": len(groups),
        "groups_completed": len(results),
        "distinct_outcomes": outcomes,
        "skipped_by_rule": skipped,
        "counters": counts,
        "max_residual_on_passing_cases": max_resid,
        "alphabet": meta.get("alphabet", {}),
        "bound": meta.get("bound", ""),
        "not_covered": meta.get("not_covered", []),
        "known_findings_matched": [{"signature": k["signature"], "cases": n} for k, n in printed_known],
        "violation_signatures": [s for s, _, _, _ in new_violations],
        "technique": getattr(mod, "TECHNIQUE", ""),
    }
    ev = {
        "property_id": cid,
        "tier": tier,
        "seed": seed,
        "level": "model_checking",
        "coverage": cov,
        "assumptions": list(getattr(mod, "ASSUMPTIONS", [])),
        "wall_s": round(wall, 2),
        "violations": len(new_violations),
    }
    validate_evidence(ev)
    if not os.environ.get("VT_NO_EVIDENCE"):
        os.makedirs(os.path.join(VERIF, "evidence"), exist_ok=True)
        tmp = os.path.join(VERIF, "evidence", cid + ".json.tmp")
        with open(tmp, "w") as f:
            json.dump(ev, f, indent=1, default=str)
        os.replace(tmp, os.path.join(VERIF, "evidence", cid + ".json"))
    print("%s tier=%s seed=%d cases=%d nontrivial=%d transitions=%d outcomes=%s skipped=%s known=%d violations=%d exhaustive=%s wall=%.1fs" % (
        cid, tier, seed, n_eval, len(nontrivial), n_trans, outcomes, skipped, len(printed_known),
        len(new_violations), cov["exhaustive"], wall))
    return 1 if new_violations else 0


def run_replay(path: str, quiet=False) -> int:
    with open(path) as f:
        rp = json.load(f)
    cid = rp["property"]
    _init(cid, int(rp.get("seed", 0)))
    for g in rp.get("prefix_groups", []):  # what the worker process had run before (each group as it was run)
        _mod.run_group(list(g), int(rp.get("seed", 0)))
    res = _mod.run_group(list(rp.get("prefix_cases", [])) + [rp["case"]], int(rp.get("seed", 0)))[-1]
    if res.get("skipped"):
        if not quiet:
            print("replay skipped by rule:", res["skipped"])
        return 0
    if res["ok"]:
        if not quiet:
            print("replay passes: property=%s" % cid)
        return 0
    if not quiet:
        print("VIOLATION property=%s replay=%s sig=%s :: %s" % (cid, path, res.get("sig"), res.get("msg")))
    return 1
