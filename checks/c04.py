"""C04 — supercell and primitive cell are exact re-tilings with consistent index maps.

Exhaustive product walk: (crystal variants) x (ALL 3x3 matrices with entries in {-1,0,1}, HNF det<=4, D3,
non-diagonal picks) x {classic, SNF} x symprec; then PMAT x store_dense_svecs for the legal pairs.
Oracle: exact integer coset algebra of vtk.ref.lattice (independent of phonopy).
"""
from __future__ import annotations

import io
import contextlib
import itertools

import numpy as np

from vtk.alphabet import crystals as X
from vtk.alphabet import smat as SM
from vtk.ref import lattice as RL

ID = "C04"
VARIANT = "omp"
TECHNIQUE = "bounded-exhaustive product walk over (cell, integer matrix, algorithm, centring) on the real constructors; exact coset oracle"
RULE = ("one case = (crystal variant, supercell matrix, algorithm, symprec) or (crystal, S, primitive matrix, storage); "
        "non-trivial = matrix is non-diagonal or |det|>1 (supercell cases) / primitive cell smaller than the unit cell or "
        "rejection expected (primitive cases); distinct = distinct case id")
ASSUMPTIONS = ["numpy linear algebra", "vtk/ref/lattice.py integer coset algebra (self-checked against brute force at start)",
               "positions compared with 1e-8 fractional tolerance (inputs are rational with small denominators or seeded generic)"]
BUDGET = {"quick": 600, "thorough": 3000}

TOL = 1e-8


def selfcheck():
    for S in ([[2, 0, 0], [0, 2, 0], [0, 0, 2]], [[1, 1, 0], [-1, 1, 0], [0, 0, 3]], [[0, 1, 1], [1, 0, 1], [1, 1, 0]],
              [[-1, 1, 1], [1, -1, 1], [1, 1, -1]], [[1, 0, 0], [0, -1, 0], [0, 1, 2]]):
        d = abs(RL.det3(S))
        cs = RL.all_cosets(S)
        assert len(cs) == d, (S, len(cs), d)
        # key is invariant under adding supercell lattice vectors n + m S^T
        rng = np.random.default_rng(0)
        for _ in range(20):
            n = rng.integers(-5, 6, 3)
            m = rng.integers(-5, 6, 3)
            assert RL.coset_key(S, n) == RL.coset_key(S, n + m @ np.array(S).T)


def _magmoms(c, kind):
    n = len(c["symbols"])
    if kind == "collinear":
        return [(-1.0) ** i * (1 + 0.25 * i) for i in range(n)]
    if kind == "noncollinear":
        return [[0.1 * i, (-1.0) ** i, 0.3 + i] for i in range(n)]
    return None


def _masses(c, kind):
    if kind == "custom":
        return [10.0 + 1.37 * i for i in range(len(c["symbols"]))]
    return None


def plan(tier, seed):
    cr = X.by_name()
    groups = []
    small_cells = ["sc-1", "hcp-2", "tri-P1-3"] if tier == "quick" else ["sc-1", "hcp-2", "tri-P1-3", "NaCl-prim-2", "mono-C-conv-4"]
    small = list(SM.SMALL())
    extra = SM.D3(3) + SM.HNF(4) + SM.NONDIAG12 + [[[4, 0, 0], [0, 1, 0], [0, 0, 1]], [[2, 2, 0], [0, 2, 0], [0, 0, 5]],
                                                       [[3, -2, 1], [1, 2, -1], [0, 1, 2]], [[2, 0, 1], [-2, 3, 0], [1, 1, 2]]]
    if tier == "thorough":
        big = [m for m in SM.SMALL((-1, 0, 1, 2))]
    # (1) SMALL complete for small cells, both algorithms
    chunk = 700
    for name in small_cells:
        for var in ("as-is",):
            for k in range(0, len(small), chunk):
                groups.append([{"kind": "super", "xtal": name, "variant": var, "S": S, "symprec": 1e-5,
                                "mag": "none", "mass": "none"} for S in small[k:k + chunk]])
    # signed axis permutations with unequal multiplicities (6 x 8 x 27 = 1296 matrices): the supercell axes are columns of S
    perm_mats = []
    for pm_ in itertools.permutations(range(3)):
        for sg in itertools.product((1, -1), repeat=3):
            for mu in itertools.product((1, 2, 3), repeat=3):
                M = np.zeros((3, 3), dtype=int)
                for r in range(3):
                    M[r, pm_[r]] = sg[r] * mu[r]
                perm_mats.append(M.tolist())
    for name in ("sc-1", "tri-P1-3"):
        for k in range(0, len(perm_mats), 324):
            groups.append([{"kind": "super", "xtal": name, "variant": "as-is", "S": S, "symprec": 1e-5, "mag": "none", "mass": "none"} for S in perm_mats[k:k + 324]
                           if abs(SM.det3(S)) * len(cr[name]["symbols"]) <= 30])
    if tier == "thorough":
        for k in range(0, len(big), 2000):
            groups.append([{"kind": "super", "xtal": "sc-1", "variant": "as-is", "S": S, "symprec": 1e-5,
                            "mag": "none", "mass": "none"} for S in big[k:k + 2000]])
    # (2) all crystals x variants x extra matrices x symprec x mag/mass decorations
    names = X.QUICK if tier == "quick" else [c["name"] for c in X.all_crystals()]
    for name in names:
        g = []
        for var in ("as-is", "reversed", "outside", "shifted"):
            if var == "reversed" and len(cr[name]["symbols"]) == 1:
                continue
            for S in extra:
                for symprec in ((1e-5,) if tier == "quick" and var != "as-is" else (1e-5, 1e-3)):
                    g.append({"kind": "super", "xtal": name, "variant": var, "S": S, "symprec": symprec,
                              "mag": "none", "mass": "none"})
        groups.append(g)
    for name in ("bcc-conv-2", "hcp-2", "tri-P1-3"):
        g = []
        for mag, mass, ext in (("collinear", "none", False), ("noncollinear", "custom", False), ("none", "custom", False), ("none", "none", True)):
            for S in extra:
                g.append({"kind": "super", "xtal": name, "variant": "as-is", "S": S, "symprec": 1e-5, "mag": mag, "mass": mass, "extsym": ext})
        groups.append(g)
    # (2b) the Smith normal form routine itself on every integer matrix over {-2..2} (1.95e6, 1.5e6 nonsingular)
    blk = 5 ** 9 // 125
    for k in range(125):
        groups.append([{"kind": "snf", "lo": k * blk, "hi": (k + 1) * blk}])
    # (3) primitive cells
    pm_S = [np.eye(3, dtype=int).tolist(), [[2, 0, 0], [0, 2, 0], [0, 0, 2]], [[2, 0, 0], [0, 1, 0], [0, 0, 3]],
            [[1, 1, 0], [-1, 1, 0], [0, 0, 1]], [[1, 1, 0], [0, 2, 0], [-1, 0, 2]], [[2, 1, 0], [0, 1, 0], [0, 0, 1]]]
    if tier == "thorough":
        pm_S += [[[3, 3, 0], [0, 1, 0], [0, 0, 2]], [[2, 0, 0], [0, 2, 0], [0, 0, 4]], [[-1, 1, 1], [1, -1, 1], [1, 1, -1]],
                 [[2, -2, 0], [2, 2, 0], [0, 0, 2]]]
    for name in list(names) + ["ortho-B-conv-4"]:
        g = []
        for var in (("as-is", "shifted") if tier == "quick" else ("as-is", "reversed", "outside", "shifted")):
            if var == "reversed" and len(cr[name]["symbols"]) == 1:
                continue
            for S in pm_S:
                for pm in ["none", "P", "F", "I", "A", "C", "R", "auto", "invS", "half"]:
                    for dense in (True, False):
                        for snf in (False, True):
                            if tier == "quick" and snf and not dense:
                                continue
                            g.append({"kind": "prim", "xtal": name, "variant": var, "S": S, "pm": pm, "dense": dense,
                                      "snf": snf, "mag": "collinear" if name == "bcc-conv-2" else "none",
                                      "reorder": bool(dense and not snf), "extsym": bool(var == "shifted")})
        # one atom of the last species carries an index of its own (e.g. Fe, Fe1 with different masses): a centring that maps it
        # onto a plain atom of the same element does not tile the crystal and must be refused
        if len(cr[name]["symbols"]) > 1:
            for S in pm_S[:3]:
                for pm in ["none", "F", "I", "A", "C", "R", "half", "invS"]:
                    g.append({"kind": "prim", "xtal": name, "variant": "as-is", "S": S, "pm": pm, "dense": True, "snf": False, "mag": "none", "reorder": False, "extsym": "split"})
        groups.append(g)
    # slightly distorted centred cells with a caller-chosen tolerance: the primitive cell is still found
    g = []
    for name in names:
        for pm in cr[name]["centring"]:
            for S in pm_S[:3]:
                g.append({"kind": "prim-noisy", "xtal": name, "S": S, "pm": pm, "noise": 1e-4, "symprec": 1e-3})
                # the same crystal described in a strongly sheared (non-reduced) basis c' = c + k a, atoms off their sites by a fraction
                # of the default tolerance: distances have to be measured with the right metric
                for k in (7, -13):
                    g.append({"kind": "prim-noisy", "xtal": name, "S": S, "pm": pm, "noise": 2e-6, "symprec": 1e-5, "shear": k})
    groups.append(g)
    meta = {"alphabet": {"SMALL{-1,0,1}": len(small), "extra_matrices": len(extra), "crystals": len(names),
                         "small_cells": small_cells, "primitive_S": len(pm_S), "PMAT": 10,
                         "SMALL{-1,0,1,2}": (len(big) if tier == "thorough" else 0)},
            "bound": "complete product of the listed alphabets", "exhaustive": True,
            "not_covered": ["matrices with entries outside the alphabets", "cells larger than 8 atoms"]}
    return groups, meta


_cache = {}


def _xtal(name, variant, seed, extsym=False):
    k = (name, variant, seed, extsym)
    if k not in _cache:
        c = X.by_name()[name]
        v = next(v for v in X.variants(c, seed) if v["variant"] == variant)
        if extsym:
            # extended (indexed) symbols: every second atom of a species gets the suffix "1" if that keeps the
            # centring translations species-preserving, i.e. all atoms of the last species are renamed
            last = v["symbols"][-1]
            if extsym == "split":
                v = dict(v, symbols=list(v["symbols"][:-1]) + [last + "1"])
            else:
                v = dict(v, symbols=[s_ + "1" if s_ == last else s_ for s_ in v["symbols"]])
        _cache[k] = v
    return _cache[k]


def _quiet(fn, *a, **k):
    buf = io.StringIO()
    with contextlib.redirect_stdout(buf):
        return fn(*a, **k)


def _fail(sig, msg, **kw):
    return dict(ok=False, sig=sig, msg=msg, **kw)


def judge_supercell(c, S, sc, algo, mags, masses):
    """Return None if sc is an exact re-tiling of c by S, else (sig-suffix, msg)."""
    S = np.array(S, dtype=int)
    L = np.array(c["lattice"], float)
    pos_u = np.array(c["positions"], float)
    nu = len(pos_u)
    d = RL.det3(S)
    N = abs(d)
    if len(sc) != N * nu:
        return "atom-count", "len(supercell)=%d expected %d" % (len(sc), N * nu)
    Ls = S.T @ L
    if np.abs(sc.cell - Ls).max() > 1e-10 * max(1.0, np.abs(Ls).max()):
        return "lattice", "supercell lattice != S^T L (max dev %.3g)" % np.abs(sc.cell - Ls).max()
    y = sc.scaled_positions @ S.T.astype(float)  # unit-cell fractional coords, if the lattice is S^T L
    # cross-check through Cartesian coordinates with the oracle's lattice (not phonopy's)
    y2 = (sc.scaled_positions @ np.asarray(sc.cell)) @ np.linalg.inv(L)
    if np.abs(y - y2).max() > 1e-7:
        return "lattice", "positions inconsistent with lattice"
    s2u, u2s, u2u = sc.s2u_map, sc.u2s_map, sc.u2u_map
    if len(u2s) != nu or len(s2u) != len(sc):
        return "maps", "map lengths"
    keys = set()
    sym = sc.symbols
    for i in range(len(sc)):
        if int(s2u[i]) not in u2u:
            return "maps", "s2u_map[%d]=%d is not a unit-cell representative" % (i, s2u[i])
        u = u2u[int(s2u[i])]
        n = y[i] - pos_u[u]
        nr = np.rint(n)
        if np.abs(n - nr).max() > TOL:
            # which unit atom is it really?
            return "maps", "supercell atom %d is not unit atom %d + lattice vector (off by %s)" % (i, u, (n - nr).round(4))
        if sym[i] != c["symbols"][u]:
            return "species", "atom %d species %s != unit atom %d %s" % (i, sym[i], u, c["symbols"][u])
        if masses is not None and abs(sc.masses[i] - masses[u]) > 1e-12:
            return "mass", "mass not carried"
        if mags is not None and np.abs(np.asarray(sc.magnetic_moments[i]) - np.asarray(mags[u])).max() > 1e-12:
            return "magmom", "magnetic moment not carried"
        k = (u,) + RL.coset_key(S, nr.astype(int))
        if k in keys:
            return "duplicate", "duplicate image of unit atom %d" % u
        keys.add(k)
    if len(keys) != N * nu:
        return "incomplete", "images missing"
    for u in range(nu):
        j = int(u2s[u])
        if int(s2u[j]) != j or u2u[j] != u:
            return "maps", "u2s/s2u/u2u inconsistent for unit atom %d" % u
    return None


def _atoms_key(c, S, sc):
    """Multiset of (unit atom, coset) — for classic-vs-SNF equality; unit atom found by the oracle."""
    S = np.array(S, dtype=int)
    pos_u = np.array(c["positions"], float)
    L = np.array(c["lattice"], float)
    y = (sc.scaled_positions @ np.asarray(sc.cell)) @ np.linalg.inv(L)
    out = []
    for i in range(len(sc)):
        found = None
        for u in range(len(pos_u)):
            n = y[i] - pos_u[u]
            if np.abs(n - np.rint(n)).max() < 1e-6 and sc.symbols[i] == c["symbols"][u]:
                found = (u,) + RL.coset_key(S, np.rint(n).astype(int))
                break
        out.append(found)
    return sorted(out, key=lambda t: (t is None, t))


def run_super(case, seed):
    from phonopy.structure.cells import get_supercell

    c = _xtal(case["xtal"], case["variant"], seed, case.get("extsym", False))
    S = case["S"]
    d = RL.det3(S)
    mags = _magmoms(c, case["mag"])
    masses = _masses(c, "custom" if case.get("extsym") else case["mass"])
    cell = X.to_phonopy(c, masses=masses, magmoms=mags)
    if masses is None:
        masses_eff = list(cell.masses)
    else:
        masses_eff = masses
    res = {}
    trans = 0
    nontriv = (abs(d) > 1) or (np.diag(np.diag(S)) != np.array(S)).any()
    built = {}
    for algo in ("classic", "snf"):
        trans += 1
        try:
            sc = _quiet(get_supercell, cell, S, is_old_style=(algo == "classic"), symprec=case["symprec"])
            rejected = (len(sc) == 0)
        except Exception as e:  # rejection by exception
            sc = None
            rejected = True
            res[algo] = "rejected:%s" % type(e).__name__
        if d == 0 or d < 0:
            # not a tiling with positive orientation: must be rejected, or (d<0) be an exact |det| tiling
            if rejected:
                res[algo] = "rejected"
                continue
            if d == 0:
                return _fail("C04/super/%s/singular-accepted" % algo, "singular S=%s produced a %d-atom cell" % (S, len(sc)),
                             nontrivial=True, transitions=trans)
        if rejected:
            if d > 0:
                return _fail("C04/super/%s/valid-rejected" % algo, "S=%s det=%d rejected (%s)" % (S, d, res.get(algo)),
                             nontrivial=nontriv, transitions=trans)
            continue
        bad = judge_supercell(c, S, sc, algo, mags, masses_eff)
        if bad:
            symm = "symmetricS" if (np.array(S) == np.array(S).T).all() else "nonsymmetricS"
            return _fail("C04/super/%s/%s/%s" % (algo, bad[0], symm), "%s %s S=%s: %s" % (case["xtal"], algo, S, bad[1]),
                         nontrivial=nontriv, transitions=trans)
        res[algo] = "ok"
        built[algo] = sc
    if len(built) == 2:
        if _atoms_key(c, S, built["classic"]) != _atoms_key(c, S, built["snf"]):
            return _fail("C04/super/classic-vs-snf", "classic and SNF give different atom sets for S=%s" % S,
                         nontrivial=nontriv, transitions=trans)
    oc = "det%s:%s/%s" % ("0" if d == 0 else ("+" if d > 0 else "-"), res.get("classic"), res.get("snf"))
    return dict(ok=True, nontrivial=bool(nontriv), transitions=trans, outcome=oc)


def _pmat(case, c):
    S = np.array(case["S"], float)
    pm = case["pm"]
    if pm == "none":
        return None, np.eye(3)
    if pm in X.CENTRING:
        return pm, X.CENTRING[pm]
    if pm == "auto":
        return "auto", None
    if pm == "invS":
        return np.eye(3), np.eye(3)
    if pm == "half":
        m = np.diag([0.5, 1, 1])
        return m, m
    raise ValueError(pm)


def _tiles(c, P):
    """Does the lattice with primitive matrix P (columns, relative to unit cell) tile crystal c?  Oracle:
    translations by the new basis vectors must map the crystal onto itself, and det(P) must be 1/integer."""
    pos = np.array(c["positions"], float)
    sym = c["symbols"]
    for k in range(3):
        t = P[:, k]  # new basis vector in unit-cell fractional coordinates
        for i in range(len(pos)):
            ok = False
            for j in range(len(pos)):
                if sym[i] != sym[j]:
                    continue
                dlt = pos[i] + t - pos[j]
                if np.abs(dlt - np.rint(dlt)).max() < 1e-6:
                    ok = True
                    break
            if not ok:
                return False
    # unit-cell lattice must be a sublattice of the primitive lattice: P^-1 integer
    Pi = np.linalg.inv(P)
    return bool(np.abs(Pi - np.rint(Pi)).max() < 1e-6)


def run_prim(case, seed):
    from phonopy import Phonopy
    from phonopy.structure.cells import guess_primitive_matrix

    c = _xtal(case["xtal"], case["variant"], seed, case.get("extsym", False))
    mags = _magmoms(c, case["mag"])
    cell = X.to_phonopy(c, magmoms=mags, masses=_masses(c, "custom") if case.get("extsym") else None)
    S = np.array(case["S"], int)
    arg, P = _pmat(case, c)
    trans = 1
    if case["pm"] == "auto":
        try:
            P = np.array(_quiet(guess_primitive_matrix, cell), float)
        except Exception as e:
            return dict(ok=True, outcome="auto-guess-raised:%s" % type(e).__name__, nontrivial=False, transitions=1)
    tiles_struct = _tiles(c, P)
    if case["pm"] == "auto" and not tiles_struct:
        return _fail("C04/prim/auto-guess-not-a-tiling", "%s %s: the guessed primitive matrix %s is not a set of translations of the crystal" % (case["xtal"], case["variant"], np.round(P, 4).tolist()),
                     nontrivial=True, transitions=1)
    tiles = tiles_struct if mags is None else _tiles(dict(c, symbols=["%s%g" % (s, m) for s, m in zip(c["symbols"], mags)]), P)
    try:
        ph = _quiet(Phonopy, cell, supercell_matrix=S, primitive_matrix=arg, store_dense_svecs=case["dense"],
                    use_SNF_supercell=case["snf"], is_symmetry=False)
    except Exception as e:
        if tiles:
            return _fail("C04/prim/valid-rejected", "%s S=%s pm=%s rejected: %s %s" % (case["xtal"], S.tolist(), case["pm"], type(e).__name__, str(e)[:100]),
                         nontrivial=True, transitions=trans)
        return dict(ok=True, outcome="nontiling-rejected", nontrivial=True, transitions=trans)
    sc, pr = ph.supercell, ph.primitive
    if not tiles:
        why = "structural" if not tiles_struct else "magnetic-moments-only"
        return _fail("C04/prim/nontiling-accepted/" + why, "%s S=%s pm=%s: centring does not tile the crystal (%s) but a %d-atom primitive cell was built" % (
            case["xtal"], S.tolist(), case["pm"], why, len(pr)), nontrivial=True, transitions=trans)
    bad = judge_primitive(c, sc, pr, P, mags, trans)
    if bad is not None:
        return bad
    out = dict(ok=True, outcome="prim-ok:n=%d" % len(pr), nontrivial=bool(len(pr) < len(c["symbols"]) or len(sc) > len(pr)), transitions=trans)
    if case.get("reorder") and len(pr) > 1:
        from phonopy.structure.cells import get_primitive

        want = pr.scaled_positions[::-1].copy()
        tm = np.linalg.inv(np.array(case["S"], float)) @ P
        try:
            pr2 = _quiet(get_primitive, sc, tm, symprec=1e-5, store_dense_svecs=case["dense"], positions_to_reorder=want)
        except Exception as e:
            return _fail("C04/prim/reorder-raised", "positions_to_reorder raised %s" % type(e).__name__, nontrivial=True, transitions=trans + 1)
        d = pr2.scaled_positions - want
        d -= np.rint(d)
        if np.abs(d).max() > 1e-6:
            return _fail("C04/prim/reorder-order", "positions_to_reorder order not honoured", nontrivial=True, transitions=trans + 1)
        bad = judge_primitive(c, sc, pr2, P, mags, trans + 1)
        if bad is not None:
            bad["sig"] = bad["sig"].replace("C04/prim/", "C04/prim/reordered/")
            return bad
        out["transitions"] = trans + 1
        out["outcome"] += "+reordered"
    return out


def run_prim_noisy(case, seed):
    from phonopy import Phonopy

    c = _xtal(case["xtal"], "as-is", seed)
    g = np.random.default_rng(61 + seed)
    L = np.array(c["lattice"], float)
    pos = np.array(c["positions"], float) + (g.uniform(-1, 1, (len(c["symbols"]), 3)) * case["noise"]) @ np.linalg.inv(L)
    cn = dict(c, positions=pos.tolist())
    P = X.CENTRING[case["pm"]]
    n_expect = int(round(len(c["symbols"]) * np.linalg.det(P)))
    pm_arg = case["pm"]
    if case.get("shear"):
        M = np.array([[1, 0, 0], [0, 1, 0], [case["shear"], 0, 1]], float)
        cn = dict(c, lattice=(M @ L).tolist(), positions=(pos @ np.linalg.inv(M)).tolist())
        pm_arg = np.linalg.inv(M.T) @ np.array(P, float)  # the same primitive lattice expressed in the sheared basis
    try:
        ph = _quiet(Phonopy, X.to_phonopy(cn), supercell_matrix=np.array(case["S"], int), primitive_matrix=pm_arg, symprec=case["symprec"], is_symmetry=False)
    except Exception as e:
        return _fail("C04/prim-noisy/valid-rejected" + ("/sheared-basis" if case.get("shear") else ""), "%s S=%s pm=%s%s, atoms off their sites by <= %g A, symprec=%g: rejected (%s: %s)" % (
            case["xtal"], case["S"], case["pm"], " basis sheared by %d a" % case["shear"] if case.get("shear") else "", case["noise"], case["symprec"], type(e).__name__, str(e)[:80]), nontrivial=True, transitions=1)
    pr, sc = ph.primitive, ph.supercell
    if len(pr) != n_expect or len(sc) != len(pr) * round(abs(SM.det3(case["S"])) / np.linalg.det(P)):
        return _fail("C04/prim-noisy/atom-count", "%s pm=%s: %d primitive atoms (expected %d), %d supercell atoms" % (case["xtal"], case["pm"], len(pr), n_expect, len(sc)), nontrivial=True, transitions=1)
    cart_s = sc.scaled_positions @ np.asarray(sc.cell)
    cart_p = pr.scaled_positions @ np.asarray(pr.cell)
    Lpi = np.linalg.inv(np.asarray(pr.cell))
    p2p = pr.p2p_map
    for i in range(len(sc)):
        k = p2p[int(pr.s2p_map[i])]
        n = (cart_s[i] - cart_p[k]) @ Lpi
        if np.abs((n - np.rint(n)) @ np.asarray(pr.cell)).max() > 2.5 * case["noise"] or sc.symbols[i] != pr.symbols[k]:
            return _fail("C04/prim-noisy/s2p", "supercell atom %d is not its primitive atom + a primitive lattice vector within the noise" % i, nontrivial=True, transitions=1)
    return dict(ok=True, outcome="prim-noisy-ok", nontrivial=True, transitions=1)


def judge_primitive(c, sc, pr, P, mags, trans):
    L = np.array(c["lattice"], float)
    Lp = P.T @ L
    if np.abs(pr.cell - Lp).max() > 1e-8:
        return _fail("C04/prim/lattice", "primitive lattice != P^T L", nontrivial=True, transitions=trans)
    detP = np.linalg.det(P)
    n_expect = int(round(len(c["symbols"]) * detP))
    if len(pr) != n_expect:
        return _fail("C04/prim/atom-count", "len(primitive)=%d expected %d" % (len(pr), n_expect), nontrivial=True, transitions=trans)
    p2s, s2p, p2p = pr.p2s_map, pr.s2p_map, pr.p2p_map
    cart_s = sc.scaled_positions @ np.asarray(sc.cell)
    cart_p = pr.scaled_positions @ np.asarray(pr.cell)
    Lpi = np.linalg.inv(Lp)
    for k in range(len(pr)):
        j = int(p2s[k])
        n = (cart_s[j] - cart_p[k]) @ Lpi
        if np.abs(n - np.rint(n)).max() > 1e-6 or sc.symbols[j] != pr.symbols[k] or abs(sc.masses[j] - pr.masses[k]) > 1e-12:
            return _fail("C04/prim/p2s", "primitive atom %d is not supercell atom %d modulo the primitive lattice" % (k, j),
                         nontrivial=True, transitions=trans)
        if mags is not None and np.abs(np.asarray(sc.magnetic_moments[j]) - np.asarray(pr.magnetic_moments[k])).max() > 1e-12:
            return _fail("C04/prim/magmom", "moment not carried to primitive cell", nontrivial=True, transitions=trans)
    for i in range(len(sc)):
        if int(s2p[i]) not in p2p:
            return _fail("C04/prim/s2p", "s2p_map[%d] not in p2p_map" % i, nontrivial=True, transitions=trans)
        k = p2p[int(s2p[i])]
        n = (cart_s[i] - cart_p[k]) @ Lpi
        if np.abs(n - np.rint(n)).max() > 1e-6 or sc.symbols[i] != pr.symbols[k]:
            return _fail("C04/prim/s2p", "supercell atom %d is not primitive atom %d + primitive lattice vector" % (i, k),
                         nontrivial=True, transitions=trans)
    # pure-translation permutations
    perms = np.asarray(pr.atomic_permutations)
    ns = len(sc)
    nt = ns // len(pr)
    if perms.shape != (nt, ns):
        return _fail("C04/prim/perm-shape", "atomic_permutations shape %s expected %s" % (perms.shape, (nt, ns)), nontrivial=True, transitions=trans)
    rows = set()
    Lsi = np.linalg.inv(np.asarray(sc.cell))
    for r in perms:
        if sorted(r.tolist()) != list(range(ns)):
            return _fail("C04/prim/perm-notbijection", "row is not a permutation", nontrivial=True, transitions=trans)
        dv = (cart_s[r] - cart_s) @ Lsi
        dv = dv - dv[0]
        if np.abs(dv - np.rint(dv)).max() > 1e-6:
            return _fail("C04/prim/perm-nottranslation", "row is not a rigid translation", nontrivial=True, transitions=trans)
        if any(sc.symbols[int(r[i])] != sc.symbols[i] or s2p[int(r[i])] != s2p[i] for i in range(ns)):
            return _fail("C04/prim/perm-sublattice", "translation leaves the sublattice", nontrivial=True, transitions=trans)
        rows.add(tuple(int(x) for x in r))
    if len(rows) != nt:
        return _fail("C04/prim/perm-duplicate", "duplicate translations", nontrivial=True, transitions=trans)
    if tuple(range(ns)) not in rows:
        return _fail("C04/prim/perm-identity", "identity missing", nontrivial=True, transitions=trans)
    for a in rows:
        inv = [0] * ns
        for i, x in enumerate(a):
            inv[x] = i
        if tuple(inv) not in rows:
            return _fail("C04/prim/perm-inverse", "not closed under inverse", nontrivial=True, transitions=trans)
        for b in rows:
            if tuple(a[x] for x in b) not in rows:
                return _fail("C04/prim/perm-closure", "not closed under composition", nontrivial=True, transitions=trans)
    # simple transitivity on each sublattice: for each (a,b) same sublattice exactly one row maps a->b
    for a in range(ns):
        imgs = [r[a] for r in rows]
        want = sorted(i for i in range(ns) if s2p[i] == s2p[a])
        if sorted(imgs) != want:
            return _fail("C04/prim/perm-transitivity", "orbit of atom %d is not its sublattice exactly once" % a, nontrivial=True, transitions=trans)
    return None


def run_snf(case, seed):
    """SNF3x3 on a block of the integer matrices over {-2..2}: D = P A Q with D diagonal and P, Q unimodular (the definition)."""
    from phonopy.structure.snf import SNF3x3

    vals = (-2, -1, 0, 1, 2)
    n = bad = 0
    first = None
    for idx in range(case["lo"], case["hi"]):
        m = []
        k = idx
        for _ in range(9):
            m.append(vals[k % 5])
            k //= 5
        a, b, c_, d, e, f, g, h, i = m
        det = a * (e * i - f * h) - b * (d * i - f * g) + c_ * (d * h - e * g)
        if det == 0:
            continue
        A = np.array(m, dtype="int64").reshape(3, 3)
        n += 1
        why = None
        try:
            snf = SNF3x3(A)
            snf.run()
            D, P, Q = (np.array(x, dtype="int64") for x in (snf.D, snf.P, snf.Q))
            if (D != np.diag(np.diag(D))).any():
                why = "D is not diagonal: %s" % D.tolist()
            elif (P @ A @ Q != D).any():
                why = "P A Q != D"
            elif abs(int(round(np.linalg.det(P)))) != 1 or abs(int(round(np.linalg.det(Q)))) != 1:
                why = "P or Q is not unimodular"
            elif abs(int(np.prod(np.diag(D)))) != abs(det):
                why = "|det D| = %d, |det A| = %d" % (abs(int(np.prod(np.diag(D)))), abs(det))
        except Exception as ex:
            why = "raised %s" % type(ex).__name__
        if why:
            bad += 1
            first = first or (A.tolist(), why)
    if bad:
        return _fail("C04/snf/not-a-smith-normal-form", "SNF3x3 of %s: %s (%d of the %d nonsingular matrices of this block)" % (first[0], first[1], bad, n), nontrivial=True, transitions=n)
    return dict(ok=True, outcome="snf-block-ok", nontrivial=True, transitions=n)


def run_group(cases, seed):
    out = []
    for case in cases:
        if case["kind"] == "snf":
            out.append(run_snf(case, seed))
            continue
        if case["kind"] == "super":
            out.append(run_super(case, seed))
        elif case["kind"] == "prim-noisy":
            out.append(run_prim_noisy(case, seed))
        else:
            out.append(run_prim(case, seed))
    return out
