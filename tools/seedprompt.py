#!/venv/bin/python
"""Print the prompt for a seeding sub-agent for one property (property text only; nothing from /verif)."""
import json, sys
pid = sys.argv[1]
wt = "/tmp/wt/%s" % pid
out = "/tmp/seed/%s" % pid
p = next(json.loads(l) for l in open("/verif/properties.jsonl") if json.loads(l)["id"] == pid)
print(f"""You are helping to evaluate a verification framework for the Python package phonopy (phonon calculations; Python + a small C extension). Your job: write REALISTIC BUGS.

You have your own scratch git worktree of the phonopy repository at {wt} (work ONLY there and under {out}; never touch or read /repo or /verif). Read /tmp/pbk/README.md first: it explains how to import phonopy from the worktree, how to build the C extension (needed for almost all numerical code) and how to run the baseline tests.

Here is a semantic property of phonopy that is supposed to hold:

TITLE: {p['title']}
STATEMENT: {p['statement']}
QUANTIFIED OVER: {p['quantifier']['text']}
CODE ANCHORS: files {', '.join(p['anchors']['files'])}
MECHANISMS: {'; '.join(m['name'] + ' @ ' + m['where'] for m in p['anchors']['mechanism'])}

TASK: produce THREE independent, different changes (bugs) to the phonopy source in the worktree (Python and/or C under c/), each of which
  (a) BREAKS the property above (the observable behaviour described in the statement becomes wrong for some input/configuration/history/schedule),
  (b) still compiles/imports, and the repository's baseline test-suite still passes exactly as before (81 passed; see README for the command) - run it to be sure,
  (c) is realistic: the kind of slip a maintainer could make in a refactoring or optimisation (index mix-up, wrong transpose, off-by-one, stale cache, missing copy, tolerance change, wrong branch condition, missing private() clause in an OpenMP pragma, wrong unit factor, ...). NOT a gross change that breaks every ordinary use at once.
  (d) needs something SPECIFIC to manifest: a particular kind of input (e.g. non-diagonal supercell matrix, interleaved species order, even multiplicity, unusual option combination), a multi-step sequence of operations, a particular thread count/interleaving, or two cooperating sites that each look fine alone. The three changes should sit in DIFFERENT mechanisms/files where possible and need different triggers.
For each change k in 1,2,3 write into {out}/k/ :
  - patch.diff : `git diff` of the worktree for that change alone (relative to the worktree's HEAD; apply-able with `git apply` at the repo root),
  - demo.py : a small standalone program, run as `/venv/bin/python demo.py <phonopy-source-root> <ext-dir>` (ext-dir = directory holding a freshly built _phonopy extension for that source root, may be ignored if not needed) that exits 0 on the ORIGINAL code and exits non-zero (with a short message) on the changed code. It must be deterministic.
  - notes.md : 5-10 lines: what was changed, why it breaks the property, what is needed for it to manifest, and the exact commands you ran (baseline result with the change, demo result with and without the change).
Work on one change at a time: make it, build the extension if C or numerical code is involved, run demo (must fail), run the baseline tests (must still be 81 passed, same as without the change), save `git diff > {out}/k/patch.diff`, then `git checkout -- .` in the worktree and verify the demo passes again on the original code (rebuild the extension if C changed) before starting the next change.
Remove build outputs you created under /tmp (other than {out}) when done. Final answer: a short list of the three changes (one line each) and any caveats (e.g. a change you could not make satisfy (b)).""")
