#!/venv/bin/python
"""Run every kept seeded change against its property's quick check (plus extra checks given as name:check), several at a
time: each seed gets its own scratch worktree of /repo under /tmp/rs (VT_REPO points the check there), removed afterwards.
usage: run_seeds_parallel.py [-j N] [seed ...]      results -> seeded/<seed>/meta.json["detection"] and stdout"""
import json, os, shutil, subprocess, sys, time
from concurrent.futures import ThreadPoolExecutor

args = sys.argv[1:]
J = 4
if args[:1] == ["-j"]:
    J = int(args[1]); args = args[2:]
seeds = args or sorted(d for d in os.listdir("/verif/seeded") if os.path.exists("/verif/seeded/%s/patch.diff" % d))
tier = os.environ.get("SEED_TIER", "quick")
extra = json.load(open("/verif/seeded/EXTRA_CHECKS.json")) if os.path.exists("/verif/seeded/EXTRA_CHECKS.json") else {}
os.makedirs("/tmp/rs", exist_ok=True)


def sh(cmd, **kw):
    return subprocess.run(cmd, shell=True, capture_output=True, text=True, **kw)


def one(name):
    wt = "/tmp/rs/" + name
    sh("git -C /repo worktree remove --force %s" % wt); shutil.rmtree(wt, ignore_errors=True)
    r = sh("git -C /repo worktree add -q --detach %s HEAD" % wt)
    if r.returncode:
        return name, {"error": r.stderr[-200:]}
    res = {}
    try:
        r = sh("git apply /verif/seeded/%s/patch.diff" % name, cwd=wt)
        if r.returncode:
            return name, {"error": "patch does not apply: " + r.stderr[-200:]}
        for c in [name.split("-")[0]] + extra.get(name, []):
            t0 = time.time()
            r = sh("./vt check %s --tier %s" % (c, tier), cwd="/verif",
                   env=dict(os.environ, VT_REPO=wt, VT_NO_EVIDENCE="1", VT_REPLAY_DIR="/tmp/rs/replays_" + name, VT_JOBS=str(max(2, 16 // J))))
            viol = [l for l in r.stdout.splitlines() if l.startswith("VIOLATION")]
            res[c] = {"rc": r.returncode, "violations": len(viol), "first": (viol[0][:300] if viol else ""), "wall": round(time.time() - t0, 1),
                      "stderr_tail": r.stderr[-300:] if r.returncode not in (0, 1) else ""}
    finally:
        sh("git -C /repo worktree remove --force %s" % wt); shutil.rmtree(wt, ignore_errors=True)
        shutil.rmtree("/tmp/rs/replays_" + name, ignore_errors=True)
    mp = "/verif/seeded/%s/meta.json" % name
    meta = json.load(open(mp)) if os.path.exists(mp) else {}
    meta.setdefault("detection", {}).update({"%s/%s" % (c, tier): v for c, v in res.items()})
    json.dump(meta, open(mp, "w"), indent=1)
    return name, res


with ThreadPoolExecutor(J) as ex:
    for name, res in ex.map(one, seeds):
        if "error" in res:
            print(name, "ERROR", res["error"]); continue
        for c, v in res.items():
            print(name, c, "DETECTED" if (v["rc"] == 1 and v["violations"]) else ("MISSED" if v["rc"] == 0 else "HARNESS-ERROR rc=%d %s" % (v["rc"], v["stderr_tail"][-150:])), "%.0fs" % v["wall"], flush=True)
sh("git -C /repo worktree prune")
