"""C12 — group velocities and Grueneisen parameters are true derivatives of the spectrum.

Product walk over crystals x supercell x layout x NAC x derivative route x q-set: (A) dD/dq of
DerivativeOfDynamicalMatrix (C and Python) against a 4th-order central difference of phonopy's own D(q) and the
closed-form gradient of the spring model; (B) reported group velocities against the Richardson-extrapolated
gradient of phonopy's own frequencies (analytic and finite-difference routes, with/without NAC);
(C) Grueneisen parameters on meshes and band paths for force constants scaled as (V/V0)^(-2g).
"""
from __future__ import annotations

import itertools

import numpy as np

from vtk import phx
from vtk.alphabet import qsets as Q
from vtk.ref import springs as SP

ID = "C12"
VARIANT = "omp"
TECHNIQUE = "bounded-exhaustive product walk over (crystal, supercell, layout, NAC, derivative route) x q-set on the real derivative / group-velocity / Grueneisen code; numerical-differentiation and closed-form oracles"
RULE = ("case = (part, crystal, S, layout, nac, route) with all q of the q-set inside; non-trivial = non-orthogonal lattice or NAC or "
        "a band path with changing band order; modes closer than 2e-3 of the band width to a neighbour are skipped and counted")
ASSUMPTIONS = ["central differences of D(q) with h=1e-4 (4th order) are accurate to 1e-7 relative for the smooth spring model",
               "uniform scaling model: fc(V) = fc(V0) (V/V0)^(-2g) at fixed reduced coordinates"]
BUDGET = {"quick": 900, "thorough": 3400}

XT = ["NaCl-prim-2", "hcp-2", "tri-P1-3", "rhomb-prim-2", "wurtzite-4", "mono-P21-2", "bct-conv-2", "CsCl-2", "diamond-prim-2", "ortho-P-2"]
NACX = {"NaCl-prim-2", "wurtzite-4", "tri-P1-3", "rhomb-prim-2", "ortho-P-2", "CsCl-2", "tri-P1-2", "zincblende-prim-2", "trig-P3-4"}


def plan(tier, seed):
    groups = []
    n = 0
    todo = [(name, [[2, 0, 0], [0, 2, 0], [0, 0, 2]] if name not in ("wurtzite-4",) else [[2, 0, 0], [0, 2, 0], [0, 0, 1]]) for name in XT]
    if tier != "quick":
        # more crystals on the isotropic supercell; anisotropic / sheared supercells only for crystals whose point group (1 or -1)
        # every supercell keeps: phonopy symmetrises group velocities with the crystal's point group, and the spring model folded
        # into a supercell of lower symmetry would not have that symmetry
        for name in ["trig-P3-4", "mono-Pc-2", "zincblende-prim-2", "rutile-6", "mono-Pm-2", "ortho-P-1"]:
            todo.append((name, [[2, 0, 0], [0, 2, 0], [0, 0, 2]] if name not in ("trig-P3-4", "rutile-6") else [[2, 0, 0], [0, 2, 0], [0, 0, 1]]))
        for name in ["tri-P1-3", "tri-P1-2", "tri-P-1bar-2"]:
            for S in ([[2, 0, 0], [0, 1, 0], [0, 0, 1]], [[1, 1, 0], [-1, 1, 0], [0, 0, 1]], [[3, 0, 0], [0, 2, 0], [0, 0, 1]], [[1, 0, 1], [0, 2, 0], [-1, 0, 1]], [[2, 0, 0], [0, 2, 0], [0, 0, 2]]):
                if (name, S) not in todo:
                    todo.append((name, S))
    for name, S in todo:
        g = []
        for layout in ("full", "compact"):
            for nac in (None, "wang", "gonze") if name in NACX else (None,):
                if nac != "gonze":
                    for lang in ("C", "Py"):
                        g.append({"part": "ddm", "xtal": name, "S": S, "layout": layout, "nac": nac, "lang": lang})
                        g.append({"part": "ddm", "xtal": name, "S": S, "layout": layout, "nac": nac, "lang": lang, "fck": "asym"})
                for route in ("analytic", "fd-1e-4", "fd-1e-5") if nac != "gonze" else ("gonze-fd",):
                    g.append({"part": "gv", "xtal": name, "S": S, "layout": layout, "nac": nac, "route": route})
        for gexp in ((0.5, 1.7, -0.4) if tier == "quick" else (0.5, 1.7, -0.4, 0.0, 3.0)):
            for eps in ((0.01, 0.003) if tier == "quick" else (0.01, 0.003, 0.03)):
                for explicit in (False, True):
                    g.append({"part": "gruneisen", "xtal": name, "S": S, "g": gexp, "eps": eps, "explicit_delta": explicit})
                g.append({"part": "gruneisen", "xtal": name, "S": S, "g": gexp, "eps": eps, "explicit_delta": False, "swapped": True})
                g.append({"part": "gruneisen", "xtal": name, "S": S, "g": gexp, "eps": eps, "explicit_delta": "double"})
            if name in NACX:
                for nac in ("wang", "gonze"):
                    g.append({"part": "gruneisen", "xtal": name, "S": S, "g": gexp, "eps": 0.01, "explicit_delta": False, "nac": nac})
        n += len(g)
        groups.append(g)
    meta = {"alphabet": {"crystals": XT, "layouts": 2, "nac": ["none", "wang", "gonze"], "routes": ["analytic", "fd-1e-4", "fd-1e-5", "gonze-fd"],
                         "gruneisen_exponents": [0.5, 1.7, -0.4], "strain": [0.01, 0.003], "cases": n},
            "bound": "complete product", "exhaustive": True, "not_covered": ["degenerate modes (subspace rotation) beyond the gap rule"]}
    return groups, meta


def _nac(ph, name, method, seed):
    nat = len(ph.primitive)
    g = np.random.default_rng(33 + seed)
    born = g.normal(size=(nat, 3, 3)) * 0.4 + np.array([np.eye(3) * (1.4 if i % 2 == 0 else -1.4) for i in range(nat)])
    born -= born.mean(axis=0)
    eps = np.eye(3) * 2.9 + 0.5 * g.normal(size=(3, 3))
    eps = (eps + eps.T) / 2
    return {"born": born, "dielectric": eps, "factor": 14.399652, "method": method}


def setup(case, seed, st, **kw):
    key = (case.get("layout", "full"), case.get("nac"), case.get("fck", "sym"), tuple(sorted(kw.items())))
    if key not in st:
        c = phx.xtal(case["xtal"])
        ph = phx.make_phonopy(c, case["S"], None, **kw)
        if "fc" not in st:
            mdl = phx.model_for(ph, "nn", seed)
            st["mdl"] = mdl
            st["fc"] = phx.supercell_fc(ph, mdl)
            st["exact_range"] = bool(mdl.rc < 0.5 * SP.shortest_lattice_vector(np.asarray(ph.supercell.cell)))
        fc = st["fc"]
        if case.get("fck") == "asym":
            # force constants without index-permutation symmetry (what an unsymmetrised fit gives): a periodic random part
            from checks.c07 import expand

            g = np.random.default_rng(55 + seed)
            fc = fc + 0.05 * np.abs(fc).max() * expand(ph, g.normal(size=(len(ph.primitive), len(ph.supercell), 3, 3)))
        if case.get("layout") == "compact":
            fc = fc[np.asarray(ph.primitive.p2s_map)]
        ph.force_constants = np.array(fc, dtype="double", order="C")
        if case.get("nac"):
            ph.nac_params = _nac(ph, case["xtal"], case["nac"], seed)
        st[key] = ph
    return st[key]


def qset(seed):
    return [np.array(q) for q in ([0.11, 0.23, -0.31], [0.4, 0.1, 0.27], [-0.21, 0.37, 0.05], [0.3, 0.0, 0.0], [0.0, 0.25, 0.25], [0.17, 0.17, 0.17])]


def dm_at(ph, q):
    ph.dynamical_matrix.run(np.asarray(q, float))
    return np.array(ph.dynamical_matrix.dynamical_matrix)


def run_ddm(case, seed, st):
    from phonopy.harmonic.derivative_dynmat import DerivativeOfDynamicalMatrix

    ph = setup(case, seed, st)
    tag = "%s/nac=%s/%s%s" % (case["lang"], case["nac"], case["layout"], "/fc-without-permutation-symmetry" if case.get("fck") == "asym" else "")
    L = np.asarray(ph.primitive.cell)
    if case["lang"] == "Py" and case["layout"] == "compact":
        return dict(ok=True, skipped="Python derivative accepts the full layout only")
    ddm = DerivativeOfDynamicalMatrix(ph.dynamical_matrix)
    worst = 0.0
    h = 1e-4
    for q in qset(seed):
        ddm.run(q, lang=case["lang"])
        got = np.array(ddm.d_dynamical_matrix)
        num = []
        for a in range(3):
            step = L[:, a] * h  # reduced-coordinate step of a Cartesian step h along axis a: q_red = L q_cart
            num.append((-dm_at(ph, q + 2 * step) + 8 * dm_at(ph, q + step) - 8 * dm_at(ph, q - step) + dm_at(ph, q - 2 * step)) / (12 * h))
        num = np.array(num)
        scale = max(np.abs(num).max(), 1e-9)
        e = np.abs(got - num).max() / scale
        worst = max(worst, e)
        if e > 2e-6:
            a = int(np.abs(got - num).reshape(3, -1).max(axis=1).argmax())
            return dict(ok=False, sig="C12/ddm-vs-numerical/" + tag, resid=float(e), nontrivial=True,
                        msg="%s q=%s: dD/dq_%s differs from the numerical derivative of D(q) by %.3g (rel)" % (case["xtal"], q.tolist(), "xyz"[a], e))
        if not case["nac"] and st.get("exact_range") and case.get("fck") != "asym":
            p = ph.primitive
            ref = SP.dynmat_gradient(np.asarray(p.cell), p.positions, p.symbols, p.masses, q, st["mdl"])
            # make_Hermitian of the derivative: compare Hermitian parts
            refh = (ref + ref.conj().transpose(0, 2, 1)) / 2
            e2 = np.abs(got - refh).max() / max(np.abs(refh).max(), 1e-9)
            if e2 > 1e-9:
                return dict(ok=False, sig="C12/ddm-vs-closed-form/" + tag, resid=float(e2), nontrivial=True,
                            msg="%s q=%s: dD/dq differs from the closed-form gradient of the lattice sum by %.3g" % (case["xtal"], q.tolist(), e2))
    # the same q-points as rows of arrays in other memory layouts
    from vtk.alphabet import qsets as QL

    qarr = np.array(qset(seed), float)
    refs = []
    for q in qarr:
        ddm.run(q, lang=case["lang"])
        refs.append(np.array(ddm.d_dynamical_matrix))
    for lname, qa in QL.layouts(qarr).items():
        if not isinstance(qa, np.ndarray):
            continue
        for k in range(len(qarr)):
            ddm.run(qa[k], lang=case["lang"])
            e = np.abs(np.array(ddm.d_dynamical_matrix) - refs[k]).max() / max(np.abs(refs[k]).max(), 1e-9)
            if e > 1e-12:
                return dict(ok=False, sig="C12/ddm-q-layout/" + tag, resid=float(e), nontrivial=True,
                            msg="%s: dD/dq at q=%s given as a row of a %s array differs from the same q as a fresh array by %.3g" % (case["xtal"], qarr[k].tolist(), lname, e))
    if case["nac"] == "wang" and case.get("fck") != "asym":
        # history on the objects themselves: the NAC parameters of the dynamical matrix are replaced after a first derivative run
        # (on an object of its own: the shared one must stay as it is for the other cases)
        php = phx.make_phonopy(phx.xtal(case["xtal"]), case["S"], None)
        php.force_constants = np.array(ph.force_constants, dtype="double", order="C").copy()
        php.nac_params = _nac(php, case["xtal"], case["nac"], seed)
        dmo = php.dynamical_matrix
        ddp = DerivativeOfDynamicalMatrix(dmo)
        q = qarr[0]
        ddp.run(q, lang=case["lang"])
        old = dmo.nac_params
        dmo.nac_params = dict(old, born=np.array(old["born"]) * 0.6, dielectric=np.array(old["dielectric"]) * 1.3)
        ddp.run(q, lang=case["lang"])
        got = np.array(ddp.d_dynamical_matrix)
        num = []
        for a in range(3):
            step = L[:, a] * h
            num.append((-dm_at(php, q + 2 * step) + 8 * dm_at(php, q + step) - 8 * dm_at(php, q - step) + dm_at(php, q - 2 * step)) / (12 * h))
        num = np.array(num)
        e = np.abs(got - num).max() / max(np.abs(num).max(), 1e-9)
        if e > 2e-6:
            return dict(ok=False, sig="C12/ddm-stale-after-nac-change/" + tag, resid=float(e), nontrivial=True,
                        msg="%s: after dynamical_matrix.nac_params was replaced, dD/dq differs from the numerical derivative of the (new) D(q) by %.3g" % (case["xtal"], e))
    if case["nac"]:
        for nd in ([1.0, 0, 0], [0.2, 0.7, -0.4]):
            ddm.run(np.zeros(3), q_direction=np.array(nd), lang=case["lang"])
            got = np.array(ddm.d_dynamical_matrix)
            if not np.isfinite(got).all():
                return dict(ok=False, sig="C12/ddm-gamma-non-finite/" + tag, msg="%s: dD/dq at Gamma with q_direction is not finite" % case["xtal"])
    return dict(ok=True, resid=float(worst), nontrivial=True, transitions=13 * len(qset(seed)), outcome="ok:ddm")


def run_gv(case, seed, st):
    kw = {}
    if case["route"].startswith("fd-"):
        kw["group_velocity_delta_q"] = float(case["route"][3:])
    ph = setup(case, seed, st, **kw)
    tag = "%s/nac=%s/%s" % (case["route"], case["nac"], case["layout"])
    L = np.asarray(ph.primitive.cell)
    qs = qset(seed)
    ph.run_qpoints(qs, with_group_velocities=True)
    d = ph.get_qpoints_dict()
    gv, fr = np.array(d["group_velocities"]), np.array(d["frequencies"])
    from vtk.alphabet import qsets as QL

    for lname, qa in QL.layouts(np.array(qs, float)).items():
        ph.run_qpoints(qa, with_group_velocities=True)
        g2 = np.array(ph.get_qpoints_dict()["group_velocities"])
        e = np.abs(g2 - gv).max() / max(np.abs(gv).max(), 1e-9)
        if e > 1e-9:
            return dict(ok=False, sig="C12/gv-q-layout/" + tag, resid=float(e), nontrivial=True,
                        msg="%s: group velocities for the q-points given as %s differ from those for a fresh array by %.3g" % (case["xtal"], lname, e))
        if isinstance(qa, np.ndarray) and case["route"] != "gonze-fd":
            k = len(qs) - 1
            g1 = np.array(ph.get_group_velocity_at_q(qa[k]))
            e = np.abs(g1 - gv[k]).max() / max(np.abs(gv).max(), 1e-9)
            if e > 1e-9:
                return dict(ok=False, sig="C12/gv-q-layout/" + tag, resid=float(e), nontrivial=True,
                            msg="%s: get_group_velocity_at_q(row of a %s array) differs from run_qpoints by %.3g" % (case["xtal"], lname, e))
    nb = fr.shape[1]
    skipped = 0
    worst = 0.0
    width = fr.max() - fr.min()
    for k, q in enumerate(qs):
        def freqs(qq):
            return np.array(ph.get_frequencies(qq))
        f0 = fr[k]
        grad = np.zeros((nb, 3))
        gerr = np.zeros((nb, 3))
        for a in range(3):
            est = []
            for h in (8e-4, 4e-4, 2e-4):
                step = L[:, a] * h
                est.append((freqs(q + step) - freqs(q - step)) / (2 * h))
            r1 = (4 * est[1] - est[0]) / 3  # Richardson
            r2 = (4 * est[2] - est[1]) / 3
            grad[:, a] = r2
            gerr[:, a] = np.abs(r2 - r1)   # self-estimated error of the numerical gradient
        for b in range(nb):
            gap = min([abs(f0[b] - f0[j]) for j in range(nb) if j != b] + [1e9])
            if gap < 2e-3 * width or f0[b] < 1e-3 * width:
                skipped += 1  # near-degenerate, (near-)zero or imaginary mode: outside the statement
                continue
            gs = max(np.abs(grad).max(), 1e-6)
            tol = (2e-6 if case["route"] == "analytic" else 2e-3) * gs + 20 * gerr[b].max()
            e = np.abs(gv[k, b] - grad[b]).max()
            worst = max(worst, e / gs)
            if e > tol:
                return dict(ok=False, sig="C12/gv-vs-frequency-gradient/" + tag, resid=float(e / gs), nontrivial=True,
                            msg="%s q=%s band %d: group velocity %s, gradient of the frequency %s (+-%.2g)" % (case["xtal"], q.tolist(), b, gv[k, b].round(6).tolist(), grad[b].round(6).tolist(), gerr[b].max()))
    # the class used directly with a non-default cutoff frequency: modes above the cutoff that are not degenerate keep their velocity
    if case["route"] == "analytic":
        from phonopy.phonon.group_velocity import GroupVelocity
        import phonopy.units as U

        # the class used without a symmetry object, and with a direction, on several q-points in one call: each q keeps its own result
        for kw_, what_ in (({"symmetry": None}, "symmetry=None"), ({"symmetry": ph.primitive_symmetry}, "perturbation given")):
            gvn = GroupVelocity(ph.dynamical_matrix, frequency_factor_to_THz=U.VaspToTHz, **kw_)
            pert = np.array([0.3, -0.2, 0.5]) if what_ == "perturbation given" else None
            gvn.run(np.array(qs), perturbation=pert)
            g_all = np.array(gvn.group_velocities)
            for k in (0, len(qs) - 1):
                gvn.run(np.array(qs[k:k + 1]), perturbation=pert)
                g_one = np.array(gvn.group_velocities)[0]
                if np.abs(g_all[k] - g_one).max() > 1e-9 * max(np.abs(g_one).max(), 1e-6):
                    return dict(ok=False, sig="C12/gv-batch-vs-single/" + tag, nontrivial=True,
                                msg="%s GroupVelocity(%s): q-point %d of a %d-point call gives %s, the same q alone %s" % (case["xtal"], what_, k, len(qs), g_all[k][0].round(5).tolist(), g_one[0].round(5).tolist()))
        for cut in (0.2 * width, 0.02 * width):
            gvc = GroupVelocity(ph.dynamical_matrix, symmetry=ph.primitive_symmetry, frequency_factor_to_THz=U.VaspToTHz, cutoff_frequency=cut)
            gvc.run(np.array(qs))
            g2 = np.array(gvc.group_velocities)
            for k in range(len(qs)):
                for b in range(nb):
                    gap = min([abs(fr[k][b] - fr[k][j]) for j in range(nb) if j != b] + [1e9])
                    if gap < 2e-3 * width or fr[k][b] <= cut * 1.01:
                        continue
                    e = np.abs(g2[k, b] - gv[k, b]).max()
                    if e > 1e-6 * max(np.abs(gv).max(), 1e-6):
                        return dict(ok=False, sig="C12/gv-depends-on-cutoff/" + tag, resid=float(e), nontrivial=True,
                                    msg="%s q=%s band %d (%.4f THz, nearest band %.4f THz away): GroupVelocity(cutoff_frequency=%.3g) gives %s, default cutoff %s" % (
                                        case["xtal"], qs[k].tolist(), b, fr[k][b], gap, cut, g2[k, b].round(5).tolist(), gv[k, b].round(5).tolist()))
    return dict(ok=True, resid=float(worst), nontrivial=True, transitions=len(qs) * 13, outcome="ok:gv:" + case["route"], count={"modes_skipped_near_degenerate": skipped})


def run_gruneisen(case, seed, st):
    from phonopy import PhonopyGruneisen
    from vtk.alphabet import crystals as X

    c0 = phx.xtal(case["xtal"])
    gexp, eps = case["g"], case["eps"]
    phs = []
    if "fc" not in st:
        ph = phx.make_phonopy(c0, case["S"], None)
        st["mdl"] = phx.model_for(ph, "nn", seed)
        st["fc"] = phx.supercell_fc(ph, st["mdl"])
        st["exact_range"] = bool(st["mdl"].rc < 0.5 * SP.shortest_lattice_vector(np.asarray(ph.supercell.cell)))
    for s in (0.0, eps, -eps):
        scale = (1 + s) ** (1.0 / 3)
        c = dict(c0, lattice=(np.array(c0["lattice"]) * scale).tolist())
        ph = phx.make_phonopy(c, case["S"], None)
        ph.force_constants = np.array(st["fc"] * (1 + s) ** (-2 * gexp), dtype="double", order="C")
        if case.get("nac"):
            # the non-analytical term is ~ Z Z / (eps V): with Z(V) = Z0 (V/V0)^((1-2g)/2) the whole dynamical matrix scales uniformly
            npar = _nac(ph, case["xtal"], case["nac"], seed)
            npar["born"] = npar["born"] * (1 + s) ** ((1 - 2 * gexp) / 2)
            ph.nac_params = npar
        phs.append(ph)
    want = -((1 + eps) ** (-2 * gexp) - (1 - eps) ** (-2 * gexp)) / (4 * eps)
    if case["explicit_delta"] == "double":
        want = want / 2  # the caller states a strain increment twice the one the volumes imply: gamma = -dD/(2 w^2 delta) halves
    tag = ("explicit-delta-x2" if case["explicit_delta"] == "double" else "explicit-delta" if case["explicit_delta"] else "delta-from-volumes") + ("/nac=%s" % case["nac"] if case.get("nac") else "")
    if case.get("swapped"):
        # "built from the three volumes supplied": the larger volume handed over in the second-volume slot
        tag += "/larger-volume-in-the-minus-slot"
        gr = PhonopyGruneisen(phs[0], phs[2], phs[1])
    else:
        gr = PhonopyGruneisen(phs[0], phs[1], phs[2], delta_strain=((4 * eps if case["explicit_delta"] == "double" else 2 * eps) if case["explicit_delta"] else None))
    worst = 0.0
    import phonopy.units as U

    def split(fr, gam):
        """deviation of well-separated modes, deviation of modes phonopy lumps together (eigenvalues closer than 1e-4)"""
        fr, gam = np.asarray(fr, float), np.asarray(gam, float)
        lam = np.sign(fr) * (fr / U.VaspToTHz) ** 2
        near = np.zeros(fr.shape, bool)
        for b in range(fr.shape[-1]):
            others = np.delete(lam, b, axis=-1)
            near[..., b] = (np.abs(others - lam[..., b:b + 1]) < 1.0001e-4).any(axis=-1)
        mask = np.abs(fr) > 1e-3 * np.abs(fr).max()
        dev = np.abs(gam - want)
        e_sep = dev[mask & ~near].max() if (mask & ~near).any() else 0.0
        e_near = dev[mask & near].max() if (mask & near).any() else 0.0
        return float(e_sep), float(e_near), int((mask & ~near).sum())

    near_dev = 0.0
    nsep = 0
    for ms in (True, False):
        gr.set_mesh([3, 3, 3], is_mesh_symmetry=ms, is_gamma_center=True)
        qpts, w, fr, ev, gam = gr.get_mesh()
        e, en, ns = split(fr, gam)
        nsep += ns
        worst = max(worst, e)
        near_dev = max(near_dev, en)
        if e > 1e-8:
            return dict(ok=False, sig="C12/gruneisen/mesh/" + tag, resid=float(e), nontrivial=True,
                        msg="%s g=%g strain=%g mesh_symmetry=%s: mode Grueneisen parameters of well-separated modes deviate from the closed form %.12f by %.3g" % (case["xtal"], gexp, eps, ms, want, e))
        if np.asarray(w).sum() != 27:
            return dict(ok=False, sig="C12/gruneisen/mesh-weights", msg="weights sum %d" % np.asarray(w).sum())
    # band path crossing the zone: band connection must keep <e|dD|e> paired with its eigenvalue
    path = [[np.array([0.02, 0.01, 0.0]) + t * np.array([0.48, 0.49, 0.5]) for t in np.linspace(0, 1, 41)],
            [np.array([0.5, 0.0, 0.03]) + t * np.array([-0.45, 0.5, 0.4]) for t in np.linspace(0, 1, 31)]]
    if case.get("nac"):
        # segments that start / end exactly at Gamma: the path direction selects the LO-TO splitting there
        path.append([t * np.array([0.5, 0.0, 0.0]) for t in np.linspace(0, 1, 6)])
        path.append([np.array([0.3, 0.3, 0.2]) * (1 - t) for t in np.linspace(0, 1, 6)])
    gr.set_band_structure(path)
    bs = gr.get_band_structure()
    for seg_f, seg_g in zip(bs[2], bs[4]):
        e, en, ns = split(seg_f, seg_g)
        nsep += ns
        worst = max(worst, e)
        near_dev = max(near_dev, en)
        if e > 1e-8:
            return dict(ok=False, sig="C12/gruneisen/band/" + tag, resid=float(e), nontrivial=True,
                        msg="%s g=%g strain=%g: Grueneisen parameters of well-separated modes along the band path deviate from the closed form by %.3g" % (case["xtal"], gexp, eps, e))
    if near_dev > 1e-8:
        return dict(ok=False, sig="C12/gruneisen/modes-with-eigenvalues-closer-than-1e-4-mispaired", resid=near_dev, nontrivial=True,
                    msg="%s g=%g strain=%g: modes whose dynamical-matrix eigenvalues differ by less than 1e-4 (absolute) are treated as degenerate: "
                        "<e|dD|e> values are sorted and paired with the wrong eigenvalue, Grueneisen parameter off by %.3g (closed form %.6f)" % (case["xtal"], gexp, eps, near_dev, want))
    return dict(ok=True, resid=float(worst), nontrivial=True, transitions=3, outcome="ok:gruneisen", count={"well_separated_modes_checked": nsep})


def run_group(cases, seed):
    st = {}
    fn = {"ddm": run_ddm, "gv": run_gv, "gruneisen": run_gruneisen}
    return [fn[c["part"]](c, seed, st) for c in cases]
