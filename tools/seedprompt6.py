#!/venv/bin/python
"""Second-wave prompt: same as seedprompt.py plus the one-line summaries of the first-wave changes (to avoid repeats)."""
import glob, json, os, subprocess, sys
pid = sys.argv[1]
base = subprocess.run(["/venv/bin/python", "/verif/tools/seedprompt.py", pid], capture_output=True, text=True).stdout
base = base.replace("/tmp/seed/%s" % pid, "/tmp/seed6/%s" % pid).replace("/tmp/wt/%s" % pid, "/tmp/wt6/%s" % pid)
prev = []
for d in sorted(glob.glob("/verif/seeded/%s-*" % pid)):
    n = os.path.join(d, "notes.md")
    if os.path.exists(n):
        first = next((l.strip("# ").strip() for l in open(n) if l.strip()), "")
        prev.append("- " + first[:200])
print(base)
print("ADDITIONAL CONSTRAINTS FOR THIS ROUND: twelve changes of this kind were already produced earlier; do NOT repeat them or close variants, and prefer mechanisms/files they did not touch:\n" + "\n".join(prev))
print("Aim for changes that are HARDER to notice: they should leave the most common crystals (NaCl, Si, cubic cells, 2x2x2 supercells, default options) bit-identical and need a rarer trigger (unusual but valid input, rarely used option or option pair, longer call history, a particular thread count, a value of exactly zero, an array layout such as compact/sparse, a non-default calculator).")
