"""C01 — the finite-displacement solver recovers exactly harmonic force constants.

Product walk: (crystal variant, S, P) prefixes x displacement/solver options within a deviation bound of the
default option tuple (quick: <=1, thorough: full product).  Forces are the exact harmonic forces of a
pair-spring crystal (vtk.ref.springs); the oracle is its folded supercell force-constant array.
"""
from __future__ import annotations

import itertools

import numpy as np

from vtk import phx
from vtk.alphabet import crystals as X
from vtk.alphabet import smat as SM
from vtk.ref import springs as SP

ID = "C01"
VARIANT = "omp"
TECHNIQUE = "bounded-exhaustive product walk (deviation-bounded option tuples per crystal/supercell prefix) on the real Phonopy API; closed-form pair-spring oracle"
RULE = ("case = (crystal variant, S, P, is_plusminus, is_diagonal, is_trigonal, distance, layout, is_symmetry, potential); "
        "non-trivial = more than one displacement generated or S non-diagonal or primitive != unit cell")
ASSUMPTIONS = ["forces are exactly harmonic (F = -Phi_S u in double precision)", "vtk/ref/springs.py (self-checked)",
               "fc_calculator = phonopy's built-in finite-displacement solver (symfc/alm absent)"]
BUDGET = {"quick": 900, "thorough": 3400}
TOL = 2e-9

OPTS = {
    "plusminus": ["auto", True, False],
    "diag": [True, False],
    "trig": [False, True],
    "dist": [0.01, 0.03, 1e-4],
    "layout": ["full", "compact"],
    "sym": [True, False],
    "pot": ["nn", "long", "central-nn", "short"],
    # where the displacements fed to the force model come from: the dataset, or the displaced supercells handed out
    # after an earlier generate_displacements() call with other options (the calculator workflow, repeated)
    # "forces-strided": the same forces handed over as a non-contiguous view (every other row block of a larger table)
    "wf": ["dataset", "supercells-after-regen", "forces-strided"],
}
DEFAULT = {k: v[0] for k, v in OPTS.items()}


def selfcheck():
    SP.selfcheck()


def option_tuples(bound):
    keys = list(OPTS)
    if bound is None:
        for t in itertools.product(*[OPTS[k] for k in keys]):
            yield dict(zip(keys, t))
        return
    seen = set()
    for r in range(bound + 1):
        for ks in itertools.combinations(keys, r):
            for vals in itertools.product(*[OPTS[k][1:] for k in ks]):
                d = dict(DEFAULT)
                d.update(dict(zip(ks, vals)))
                key = tuple(d[k] for k in keys)
                if key not in seen:
                    seen.add(key)
                    yield d


S_QUICK = [np.eye(3, dtype=int).tolist(), [[2, 0, 0], [0, 1, 0], [0, 0, 1]], [[2, 0, 0], [0, 2, 0], [0, 0, 2]],
           [[1, 0, 0], [0, 3, 0], [0, 0, 2]],
           [[1, 1, 0], [-1, 1, 0], [0, 0, 1]], [[2, 1, 0], [0, 1, 0], [0, 0, 1]], [[1, 1, 0], [0, 2, 0], [-1, 0, 2]],
           [[-1, 1, 1], [1, -1, 1], [1, 1, -1]]]


def prefixes(tier, seed):
    cr = X.by_name()
    names = X.QUICK if tier == "quick" else [c["name"] for c in X.all_crystals()]
    Ss = S_QUICK if tier == "quick" else S_QUICK + [[[3, 0, 0], [0, 3, 0], [0, 0, 1]], [[2, 0, 0], [1, 1, 0], [0, 1, 2]],
                                                   [[1, 2, 0], [0, 1, 0], [1, 0, 2]], [[3, 1, 0], [0, 1, 0], [0, 0, 1]], [[2, 0, 0], [0, 2, 0], [0, 0, 3]]]
    maxat = 48 if tier == "quick" else 96
    names = list(names) + ["P4mm-dd-8"]
    for name in ("sc-1", "CsCl-2", "NaCl-prim-2", "bcc-conv-2"):
        for S in Ss[:3] + Ss[4:5]:
            yield {"xtal": name, "variant": "as-is", "S": S, "pm": "none", "mag": "ferro-z"}
    for name in names:
        c = cr[name]
        vars_ = ["as-is", "reversed"] if tier == "quick" else ["as-is", "reversed", "outside", "shifted"]
        for var in vars_:
            if var == "reversed" and len(c["symbols"]) == 1:
                continue
            for S in Ss:
                if abs(SM.det3(S)) * len(c["symbols"]) > maxat:
                    continue
                pms = ["none"] + c["centring"] + (["auto"] if var == "as-is" else [])
                for pm in pms:
                    yield {"xtal": name, "variant": var, "S": S, "pm": pm}


def plan(tier, seed):
    bound = 2 if tier == "quick" else None
    opts = list(option_tuples(bound))
    groups = []
    npre = 0
    for pre in prefixes(tier, seed):
        npre += 1
        # quick tier: non-default atom order gets only the default tuple + layout/sym deviations
        groups.append([dict(pre, **o) for o in opts])
    # cost-sort: biggest supercells first so the pool balances
    groups.sort(key=lambda g: -abs(SM.det3(g[0]["S"])) * len(X.by_name()[g[0]["xtal"]]["symbols"]))
    meta = {"alphabet": {"prefixes(crystal,variant,S,P)": npre, "option_tuples": len(opts), **{k: len(v) for k, v in OPTS.items()}},
            "bound": "option tuples within deviation %s of the default, complete over prefixes" % ("2" if bound == 2 else "full product"),
            "exhaustive": True,
            "not_covered": ["external fc calculators (symfc, alm)", "type-2 datasets", "anharmonic / noisy forces", "supercells above the atom cap"]}
    return groups, meta


def run_group(cases, seed):
    out = []
    phs = {}
    fcs = {}
    c = phx.xtal(cases[0]["xtal"], cases[0]["variant"], seed)
    for case in cases:
        out.append(run_case(case, seed, c, phs, fcs))
    return out


def run_case(case, seed, c, phs, fcs):
    tag = "%s/sym=%s" % (case["layout"], case["sym"])
    k = case["sym"]
    if k not in phs:
        try:
            phs[k] = phx.make_phonopy(c, case["S"], case["pm"], is_symmetry=case["sym"],
                                      **({"magmoms": [[0.0, 0.0, 1.5]] * len(c["symbols"])} if case.get("mag") == "ferro-z" else {}))
        except Exception as e:
            if case["pm"] == "auto":
                return dict(ok=True, skipped="auto primitive matrix guess raised")
            phs[k] = e
    ph = phs[k]
    if isinstance(ph, Exception):
        return dict(ok=False, sig="C01/constructor-raised", msg="%s: %s" % (type(ph).__name__, str(ph)[:200]))
    if case["pot"] not in fcs:
        mdl = phx.model_for(ph, case["pot"], seed)
        if case.get("mag") == "ferro-z":
            # a ferromagnet magnetised along z (identical non-collinear moments): its crystal field is uniaxial, so the harmonic
            # model respects the magnetic group (operations that map z onto +-z), not the cubic group of the positions
            mdl = SP.SpringModel(rc=mdl.rc, seed=seed, central=mdl.central, axial=0.35)
        fcs[case["pot"]] = phx.supercell_fc(ph, mdl)
    ref = fcs[case["pot"]]
    scale = max(np.abs(ref).max(), 1e-3)
    trans = 0
    try:
        if case.get("wf") == "supercells-after-regen":
            phx.quiet(ph.generate_displacements, distance=2.5 * case["dist"], is_plusminus=(case["plusminus"] is not True),
                      is_diagonal=not case["diag"])
            _ = ph.supercells_with_displacements
            trans += 1
        phx.quiet(ph.generate_displacements, distance=case["dist"], is_plusminus=case["plusminus"],
                  is_diagonal=case["diag"], is_trigonal=case["trig"])
        trans += 1
        ds = ph.dataset
        ndisp = len(ds["first_atoms"])
        for d in ds["first_atoms"]:
            if abs(np.linalg.norm(d["displacement"]) - case["dist"]) > 1e-9 * case["dist"] + 1e-14:
                return dict(ok=False, sig="C01/displacement-length", msg="displacement %s has length != distance %g" % (d["displacement"], case["dist"]),
                            transitions=trans)
        if case.get("wf") == "supercells-after-regen":
            scs = ph.supercells_with_displacements
            if len(scs) != ndisp:
                return dict(ok=False, sig="C01/displaced-supercells-stale", msg="%d displaced supercells for %d displacements" % (len(scs), ndisp), transitions=trans)
            base = ph.supercell.positions
            fbuf = np.array([-np.einsum("ijab,jb->ia", ref, sc_.positions - base) for sc_ in scs], dtype="double", order="C")
        else:
            fbuf = np.array(SP.forces_for_dataset(ref, ds), dtype="double", order="C")
        if case.get("wf") == "forces-strided":
            big = np.full((fbuf.shape[0], fbuf.shape[1], 6), 4.2)
            big[:, :, ::2] = fbuf
            fbuf = big[:, :, ::2]
        ph.forces = fbuf
        # the caller's buffer is reused afterwards (the usual loop over volumes / displacements): the forces that count are those
        # at the time of the call
        fbuf[...] = np.nan
        trans += 1
        phx.quiet(ph.produce_force_constants, calculate_full_force_constants=(case["layout"] == "full"),
                  fc_calculator=None, show_drift=False)
        trans += 1
        fc = np.array(ph.force_constants)
    except Exception as e:
        return dict(ok=False, sig="C01/solver-raised/" + tag, msg="%s: %s" % (type(e).__name__, str(e)[:300]), transitions=trans)
    interacting = bool(np.abs(ref - np.einsum("iiab->iab", ref)[:, None] * np.eye(ns_ := len(ref))[:, :, None, None]).max() > 1e-6)
    nontriv = interacting and bool(ndisp > 1 or (np.diag(np.diag(case["S"])) != np.array(case["S"])).any() or len(ph.primitive) != len(ph.unitcell))
    if not np.isfinite(fc).all():
        return dict(ok=False, sig="C01/non-finite/" + tag, msg="non-finite force constants", transitions=trans, nontrivial=nontriv)
    ns = len(ph.supercell)
    if case["layout"] == "full":
        want = ref
        if fc.shape != (ns, ns, 3, 3):
            return dict(ok=False, sig="C01/shape/" + tag, msg="full fc shape %s" % (fc.shape,), transitions=trans)
    else:
        p2s = np.asarray(ph.primitive.p2s_map)
        want = ref[p2s]
        if fc.shape != (len(p2s), ns, 3, 3):
            if fc.shape == (ns, ns, 3, 3) and len(p2s) == ns:
                pass
            else:
                return dict(ok=False, sig="C01/shape/" + tag, msg="compact fc shape %s expected %s" % (fc.shape, want.shape), transitions=trans)
    err = float(np.abs(fc - want).max() / scale)
    if err > TOL:
        return dict(ok=False, sig="C01/fc-mismatch/" + tag, msg="%s %s S=%s pm=%s opts=%s: max|fc-Phi_S|/scale = %.3g (ndisp=%d)" % (
            case["xtal"], case["variant"], case["S"], case["pm"], {k: case[k] for k in OPTS}, err, ndisp),
            resid=err, transitions=trans, nontrivial=nontriv)
    return dict(ok=True, resid=err, transitions=trans, nontrivial=nontriv, outcome="ok:ndisp=%d" % min(ndisp, 12))
