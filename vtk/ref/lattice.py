"""Exact integer lattice algebra — independent of phonopy.

Conventions: a lattice is a 3x3 array whose ROWS are the basis vectors.  A supercell matrix S (phonopy's
convention, columns = new axes in units of the old ones) gives the supercell lattice  Ls = S^T @ L.
"""
from __future__ import annotations

import itertools

import numpy as np


def det3(m):
    m = [[int(x) for x in r] for r in m]
    return (m[0][0] * (m[1][1] * m[2][2] - m[1][2] * m[2][1])
            - m[0][1] * (m[1][0] * m[2][2] - m[1][2] * m[2][0])
            + m[0][2] * (m[1][0] * m[2][1] - m[1][1] * m[2][0]))


def adjugate(m):
    m = np.array(m, dtype=object)
    a = np.empty((3, 3), dtype=object)
    for i in range(3):
        for j in range(3):
            r = [k for k in range(3) if k != j]
            c = [k for k in range(3) if k != i]
            minor = m[r[0]][c[0]] * m[r[1]][c[1]] - m[r[0]][c[1]] * m[r[1]][c[0]]
            a[i][j] = (-1) ** (i + j) * minor
    return a  # adj(m) @ m = det * I


def coset_key(S, n):
    """Canonical key of the integer vector n (unit-cell lattice coordinates, as a ROW: point = n @ L)
    modulo the supercell lattice spanned by the rows of S^T.
    n = m @ S^T  <=>  n^T = S m^T ; key = (adj(S) n^T) mod |det|."""
    d = det3(S)
    a = adjugate(S)
    v = [sum(a[i][j] * int(n[j]) for j in range(3)) for i in range(3)]
    if d < 0:
        v = [-x for x in v]
        d = -d
    return tuple(int(x % d) for x in v)


def coset_keys_array(S, N):
    """Vectorised coset_key for an (k,3) integer array."""
    d = det3(S)
    a = np.array(adjugate(S), dtype=np.int64)
    v = np.asarray(N, dtype=np.int64) @ a.T
    if d < 0:
        v = -v
        d = -d
    return np.mod(v, d)


def all_cosets(S):
    """All |det S| coset keys, by brute force enumeration of a box (independent of coset_key's algebra)."""
    d = abs(det3(S))
    seen = set()
    r = 0
    while len(seen) < d:
        r += 1
        for n in itertools.product(range(-r, r + 1), repeat=3):
            seen.add(coset_key(S, n))
        if r > d + 2:
            raise AssertionError("coset enumeration did not close")
    return seen


def reciprocal(L):
    """Rows b_i with a_i . b_j = delta_ij (no 2 pi)."""
    return np.linalg.inv(np.asarray(L, float)).T


def min_images(L, d_frac, tol=1e-9, extra=1):
    """All lattice images (integer n) of the fractional vector d that attain the minimum length of
    |(d+n) L|, by exhaustive enumeration of a box that provably contains every minimiser.

    Proof of the box: let rho be the length of some image.  Any image of length <= rho has
    |x_i| = |(d+n) L . b_i| <= rho |b_i|  (x_i = fractional coordinate, b_i reciprocal row), hence
    |n_i + d_i| <= rho |b_i|.
    """
    L = np.asarray(L, float)
    B = reciprocal(L)
    d = np.asarray(d_frac, float)
    d0 = d - np.rint(d)
    base = np.rint(d) * -1  # n such that d+n = d0
    rho = np.linalg.norm(d0 @ L)
    bn = np.linalg.norm(B, axis=1)
    rng = []
    for i in range(3):
        r = rho * bn[i] + abs(d0[i])
        lo = int(np.floor(-r - d0[i])) - extra
        hi = int(np.ceil(r - d0[i])) + extra
        rng.append(np.arange(lo, hi + 1))
    g = np.stack(np.meshgrid(*rng, indexing="ij"), axis=-1).reshape(-1, 3)
    v = (d0 + g) @ L
    ln = np.linalg.norm(v, axis=1)
    m = ln.min()
    return g + base, v, ln, m


def pair_reduce(L, max_iter=200):
    """Greedy pairwise (Gauss/Lagrange-type) size reduction of a basis.  Returns (Lr, U) with Lr = U @ L, U unimodular
    integer.  Not necessarily Minkowski reduced — it only has to make the enumeration box small; correctness of the
    minimum-image enumeration never depends on the quality of the reduction (the box bound holds for any basis)."""
    Lr = np.array(L, float)
    U = np.eye(3, dtype=np.int64)
    for _ in range(max_iter):
        changed = False
        for i in range(3):
            for j in range(3):
                if i == j:
                    continue
                mu = int(np.rint(np.dot(Lr[i], Lr[j]) / np.dot(Lr[j], Lr[j])))
                if mu != 0:
                    Lr[i] -= mu * Lr[j]
                    U[i] -= mu * U[j]
                    changed = True
        # also try sums/differences of three vectors (helps for obtuse cells)
        for i in range(3):
            for s1 in (-1, 1):
                for s2 in (-1, 1):
                    j, k = [x for x in range(3) if x != i]
                    cand = Lr[i] + s1 * Lr[j] + s2 * Lr[k]
                    if np.dot(cand, cand) < np.dot(Lr[i], Lr[i]) - 1e-12:
                        Lr[i] = cand
                        U[i] = U[i] + s1 * U[j] + s2 * U[k]
                        changed = True
        if not changed:
            break
    assert abs(abs(det3(U.tolist())) - 1) == 0
    return Lr, U
