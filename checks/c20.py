"""C20 — equations of state and quasi-harmonic analysis recover known parameters.

Exhaustive product over the three equations of state x a parameter grid (defining meaning of E0, V0, B0, B0'),
x volume grids (fit recovery), and x temperature laws x pressures x t_max x electronic-energy shapes for the
quasi-harmonic analysis fed with free energies that are exactly an equation of state at every temperature.
"""
from __future__ import annotations

import itertools

import numpy as np

ID = "C20"
VARIANT = None
VARIANTS_NEEDED = []
TECHNIQUE = "bounded-exhaustive product walk over (EOS, parameter grid, volume grid, temperature law, pressure, t_max, electronic-energy shape) on the real EOS/QHA classes; analytic-parameter oracle with complex-step / central differences"
RULE = ("case = one EOS parameter tuple / one fit / one QHA configuration; non-trivial = B0' != 4 or off-centre volume grid or non-zero pressure or "
        "temperature-dependent parameters")
ASSUMPTIONS = ["scipy.optimize.leastsq (from the offline wheelhouse, private copy) converges on exact data", "numerical derivatives: complex step for E', 4th-order central differences for E'', E'''"]
BUDGET = {"quick": 600, "thorough": 3000}

EOSES = ["vinet", "birch_murnaghan", "murnaghan"]
E0S = [-10.0, 0.0, 3.0]
B0S = [0.3, 1.0, 2.5]
BPS = [3.5, 4.0, 5.5, 7.0]
V0S = [10.0, 40.0, 160.0]


def plan(tier, seed):
    groups = []
    e0s, b0s, bps, v0s = (E0S, B0S, BPS, V0S) if tier == "quick" else ([-10.0, -1.0, 0.0, 3.0], [0.05, 0.3, 1.0, 2.5, 6.0], [2.5, 3.5, 4.0, 4.7, 5.5, 7.0, 9.0], [5.0, 10.0, 40.0, 160.0, 900.0])
    g = [{"kind": "meaning", "eos": e, "p": [e0, b0, bp, v0]} for e in EOSES for e0, b0, bp, v0 in itertools.product(e0s, b0s, bps, v0s)]
    for k in range(0, len(g), 54):
        groups.append(g[k:k + 54])
    g = []
    for e in EOSES:
        for (b0, bp, v0) in (itertools.product(B0S, BPS[::2], V0S[::2]) if tier == "quick" else itertools.product(b0s, bps, v0s)):
            for npts, spacing, off in itertools.product((5, 7, 11) if tier == "quick" else (5, 6, 7, 9, 11, 15, 21), ("V", "a"), (0.0, 0.04, -0.05) if tier == "quick" else (0.0, 0.02, 0.04, 0.07, -0.03, -0.05, -0.08)):
                g.append({"kind": "fit", "eos": e, "p": [-3.0, b0, bp, v0], "npts": npts, "spacing": spacing, "off": off})
    for k in range(0, len(g), 36):
        groups.append(g[k:k + 36])
    g = []
    for e in EOSES:
        for law, P, tmax, elshape, grid in itertools.product(("const", "linear", "debye"), (None, 0.0, 5.0, -2.0) if tier == "quick" else (None, 0.0, 0.5, 5.0, 20.0, -2.0, -6.0),
                                                             (None, 300.0, 700.0, 420.0, 304.0, 950.0) if tier == "quick" else (None, 0.0, 50.0, 100.0, 300.0, 304.0, 420.0, 700.0, 731.0, 950.0, 1000.0, 5000.0), ("V", "TV"),
                                                             ("uniform", "nonuniform") if tier == "quick" else ("uniform", "nonuniform", "fine", "short")):
            if tier == "quick" and tmax in (420.0, 304.0, 950.0) and (law != "linear" or P not in (None, 5.0)):
                continue
            if tier == "quick" and grid == "nonuniform" and (P not in (None, 5.0) or tmax in (300.0, 420.0)):
                continue
            g.append({"kind": "qha", "eos": e, "law": law, "P": P, "tmax": tmax, "el": elshape, "grid": grid})
        for vo, P_, el_ in itertools.product(("ascending", "descending", "shuffled"), (None, 5.0), ("eos", "V", "TV", "TV-eos")):
            g.append({"kind": "qha", "eos": e, "law": "linear", "P": P_, "tmax": None, "el": el_, "grid": "uniform", "vorder": vo})
        for P_, el_, tm_, gr_ in itertools.product((None, 5.0), ("V", "TV"), (None, 304.0), ("uniform", "nonuniform")):
            g.append({"kind": "qha", "eos": e, "law": "debye", "P": P_, "tmax": tm_, "el": el_, "grid": gr_, "verbose": True})
            g.append({"kind": "qha", "eos": e, "law": "debye", "P": P_, "tmax": tm_, "el": el_, "grid": gr_, "writers": True})
    for k in range(0, len(g), 12):
        groups.append(g[k:k + 12])
    meta = {"alphabet": {"eos": EOSES, "E0": E0S, "B0": B0S, "B0'": BPS, "V0": V0S, "fit_grids": 18, "qha_cases": len(g)},
            "bound": "complete product", "exhaustive": True, "not_covered": ["noisy energies", "fewer than 5 volumes"]}
    return groups, meta


def run_meaning(case):
    from phonopy.qha.eos import get_eos

    f = get_eos(case["eos"])
    e0, b0, bp, v0 = case["p"]
    p = [e0, b0, bp, v0]
    nontriv = bool(bp != 4.0)

    def fail(kind, msg):
        return dict(ok=False, sig="C20/eos-meaning/%s/%s" % (kind, case["eos"]), nontrivial=nontriv, msg="%s %s: %s" % (case["eos"], p, msg))

    if abs(f(v0, *p) - e0) > 1e-12 * max(1, abs(e0)):
        return fail("E0", "E(V0) = %r" % f(v0, *p))
    from vtk.ref import eos as RE

    vv = v0 * np.array([0.8, 0.93, 1.0, 1.07, 1.25])
    dev = np.abs(f(vv, *p) - RE.EOS[case["eos"]](vv, *p)).max()
    if dev > 1e-10 * max(1.0, b0 * v0):
        return fail("formula", "get_eos(%r) differs from the %s equation of state by %.3g eV" % (case["eos"], case["eos"], dev))
    d1 = np.imag(f(v0 + 1e-30j, *p)) / 1e-30
    if abs(d1) > 1e-12 * b0:
        return fail("pressure-at-V0", "dE/dV(V0) = %r" % d1)
    h = v0 * 2e-3

    def d1f(v):
        return np.imag(f(v + 1e-30j, *p)) / 1e-30
    d2 = (-d1f(v0 + 2 * h) + 8 * d1f(v0 + h) - 8 * d1f(v0 - h) + d1f(v0 - 2 * h)) / (12 * h)
    if abs(v0 * d2 / b0 - 1) > 1e-8:
        return fail("B0", "V d2E/dV2 (V0) = %r" % (v0 * d2))
    d3 = (-d1f(v0 + 2 * h) + 16 * d1f(v0 + h) - 30 * d1f(v0) + 16 * d1f(v0 - h) - d1f(v0 - 2 * h)) / (12 * h * h)
    bprime = -1 - v0 * d3 / d2
    if abs(bprime - bp) > 2e-6 * bp:
        return fail("B0prime", "dB/dP (V0) = %r" % bprime)
    return dict(ok=True, nontrivial=nontriv, transitions=1, outcome="ok:meaning")


def vgrid(v0, npts, spacing, off):
    c = v0 * (1 + off)
    if spacing == "V":
        return np.linspace(0.9 * c, 1.1 * c, npts)
    a = np.linspace((0.9 * c) ** (1 / 3), (1.1 * c) ** (1 / 3), npts)
    return a ** 3


def trapped(case, bp_fit):
    """The recorded finding: the Vinet expression has a removable singularity at B0'=1 (division by (B0'-1)**2) and the
    least-squares iteration started from B0=1, B0'=4 ends there for very stiff data (B0 = 6 eV/A^3)."""
    return case["eos"] == "vinet" and case["p"][1] >= 6.0 and case["p"][2] > 2.0 and abs(bp_fit - 1.0) < 0.02


def run_fit(case):
    from phonopy.qha.eos import EOSFit, fit_to_eos, get_eos

    from vtk.ref import eos as RE

    f = get_eos(case["eos"])
    p = np.array(case["p"], float)
    V = vgrid(p[3], case["npts"], case["spacing"], case["off"])
    E = RE.EOS[case["eos"]](V, *p)
    nontriv = bool(case["off"] != 0 or case["spacing"] == "a")
    try:
        got = np.array(fit_to_eos(V, E, f))
        fit = EOSFit(V, E, f)
        fit.fit([E[len(E) // 2], 1.0, 4.0, V[len(V) // 2]])
        got2 = np.array(fit.parameters)
    except Exception as e:
        return dict(ok=False, sig="C20/fit/raised/%s" % case["eos"], nontrivial=nontriv, msg="%s: %s: %s" % (case, type(e).__name__, str(e)[:100]))
    for g_ in (got, got2):
        e = np.abs((g_ - p) / np.maximum(np.abs(p), 1.0)).max()
        if e > 1e-6:
            if trapped(case, g_[2]):
                return dict(ok=False, sig="C20/fit/vinet-trapped-at-bprime-1", resid=float(e), nontrivial=nontriv,
                            msg="vinet fit of exact data B0=%g B0'=%g V0=%g (n=%d %s off=%g) stops at the removable singularity B0'=1: fitted %s" % (p[1], p[2], p[3], case["npts"], case["spacing"], case["off"], g_.tolist()))
            return dict(ok=False, sig="C20/fit/parameters/%s" % case["eos"], resid=float(e), nontrivial=nontriv,
                        msg="%s grid n=%d %s off=%g: fitted %s, true %s" % (case["eos"], case["npts"], case["spacing"], case["off"], g_.tolist(), p.tolist()))
    # BulkModulus front end (GPa)
    from phonopy.qha.core import BulkModulus
    from phonopy.units import EVAngstromToGPa

    bm = BulkModulus(V, E, eos=case["eos"])
    if abs(bm.bulk_modulus / p[1] - 1) > 1e-6 or abs(bm.equilibrium_volume / p[3] - 1) > 1e-7 or abs(bm.b_prime / p[2] - 1) > 1e-5 or abs(bm.energy - p[0]) > 1e-7:
        return dict(ok=False, sig="C20/fit/BulkModulus/%s" % case["eos"], nontrivial=nontriv, msg="BulkModulus gives B=%r V=%r B'=%r" % (bm.bulk_modulus, bm.equilibrium_volume, bm.b_prime))
    # pressure enters as +PV: energies that are the equation minus PV fit back to the equation
    Pg = 3.0
    bm2 = BulkModulus(V, E - V * Pg / EVAngstromToGPa, pressure=Pg, eos=case["eos"])
    if abs(bm2.equilibrium_volume / p[3] - 1) > 1e-7:
        if trapped(case, bm2.b_prime):
            return dict(ok=False, sig="C20/fit/vinet-trapped-at-bprime-1", nontrivial=nontriv,
                        msg="vinet fit (BulkModulus, pressure 3 GPa) of exact data B0=%g B0'=%g V0=%g (n=%d %s off=%g) stops at the removable singularity B0'=1: B'=%r V=%r" % (p[1], p[2], p[3], case["npts"], case["spacing"], case["off"], bm2.b_prime, bm2.equilibrium_volume))
        return dict(ok=False, sig="C20/fit/BulkModulus-pressure/%s" % case["eos"], nontrivial=nontriv, msg="pressure is not applied as +PV: V=%r" % bm2.equilibrium_volume)
    return dict(ok=True, nontrivial=nontriv, transitions=3, outcome="ok:fit")


def laws(law, T):
    """(E0, B0, B0', V0) as functions of temperature"""
    T = np.asarray(T, float)
    if law == "const":
        return np.full_like(T, -5.0), np.full_like(T, 0.9), np.full_like(T, 4.5), np.full_like(T, 40.0)
    if law == "linear":
        return -5.0 - 2e-4 * T, 0.9 - 1e-4 * T, 4.5 + 1e-4 * T, 40.0 + 2e-3 * T
    x = T / 400.0
    d = x ** 4 / (1 + x ** 3)
    return -5.0 - 0.3 * d, 0.9 * (1 - 0.05 * d), 4.5 + 0.1 * np.tanh(x), 40.0 * (1 + 0.01 * d)


def run_qha(case):
    from phonopy import PhonopyQHA
    from phonopy.qha.eos import get_eos
    from phonopy.units import EVAngstromToGPa, EvTokJmol

    from vtk.ref import eos as RE

    f = RE.EOS[case["eos"]]
    if case["grid"] == "uniform":
        T = np.arange(0.0, 1001.0, 50.0)
    elif case["grid"] == "fine":
        T = np.arange(0.0, 1001.0, 10.0)
    elif case["grid"] == "short":
        T = np.array([0.0, 100.0, 200.0, 300.0, 400.0])
    else:
        T = np.array([0.0, 10, 30, 70, 150, 200, 300, 420, 500, 700, 760, 1000], float)
    E0, B0, BP, V0 = laws(case["law"], T)
    V = np.linspace(34.0, 47.0, 9)
    P = case["P"]
    Pev = 0.0 if P is None else P / EVAngstromToGPa
    # total free energy such that F + P V is exactly the EOS with the temperature-dependent parameters
    Ftot = np.array([f(V, E0[i], B0[i], BP[i], V0[i]) - Pev * V for i in range(len(T))])
    # split into an electronic part and a phonon part (kJ/mol)
    PEL = (-4.0, 0.55, 4.7, 41.0)  # static (phonon-free) equation of state of its own
    if case["el"] == "eos":
        el = f(V, *PEL) - Pev * V
        ph = (Ftot - el[None, :]) * EvTokJmol
        el_in = el.copy()
    elif case["el"] == "TV-eos":
        # per-temperature electronic energies, each row exactly the equation of state with its own parameters
        PT = np.array([[PEL[0] - 1e-5 * t, PEL[1] * (1 - 1e-4 * t), PEL[2] + 1e-4 * t, PEL[3] * (1 + 2e-5 * t)] for t in T])
        el = np.array([f(V, *PT[i]) - Pev * V for i in range(len(T))])
        ph = (Ftot - el) * EvTokJmol
        el_in = el.copy()
    elif case["el"] == "V":
        el = 0.02 * (V - 40.0) ** 2 - 4.0
        ph = (Ftot - el[None, :]) * EvTokJmol
        el_in = el.copy()
    else:
        el = 0.02 * (V[None, :] - 40.0) ** 2 - 4.0 - 1e-5 * T[:, None] * (V[None, :] - 30.0)
        ph = (Ftot - el) * EvTokJmol
        el_in = el.copy()
    cv = np.array([[20 + 0.01 * t + 0.1 * (v - 40) for v in V] for t in T])
    S = np.array([[30 + 0.02 * t + 0.2 * (v - 40) - 0.003 * (v - 40) ** 2 for v in V] for t in T])
    nontriv = bool(case["law"] != "const" or P not in (None, 0.0))
    tag = "%s/P=%s/el=%s/%s" % (case["law"], P, case["el"], case["grid"])

    def fail(kind, msg, resid=None):
        return dict(ok=False, sig="C20/qha/%s/%s" % (kind, case["eos"]), resid=resid, nontrivial=nontriv, msg="%s %s tmax=%s: %s" % (case["eos"], tag, case["tmax"], msg))

    # the volume points in the order the caller happens to have them
    vo = case.get("vorder", "ascending")
    perm = {"ascending": np.arange(len(V)), "descending": np.arange(len(V))[::-1], "shuffled": np.random.default_rng(4).permutation(len(V))}[vo]
    if vo != "ascending":
        tag += "/volumes-" + vo
    Vin = V[perm].copy()
    el_in = np.ascontiguousarray(el_in[..., perm])
    ph_in, cv_in, S_in = (np.ascontiguousarray(a[:, perm]) for a in (ph, cv, S))
    el_before = el_in.copy()
    try:
        import contextlib as _cl
        import io as _io

        with _cl.redirect_stdout(_io.StringIO()):
            qha = PhonopyQHA(volumes=Vin, electronic_energies=el_in, temperatures=T, free_energy=ph_in, cv=cv_in, entropy=S_in, pressure=P, eos=case["eos"], t_max=case["tmax"],
                             verbose=bool(case.get("verbose")))
    except Exception as e:
        return fail("raised", "%s: %s" % (type(e).__name__, str(e)[:150]))
    if not np.array_equal(el_in, el_before):
        return fail("input-modified", "the electronic-energy array handed in was modified (PV term written into the caller's array)")
    if case["tmax"] is None:
        n = len(T) - 1
    else:
        i = int(np.argmin(np.abs(T - case["tmax"])))
        n = min(i + 2, len(T)) - 1
    Vt = np.array(qha.volume_temperature)
    Gt = np.array(qha.gibbs_temperature)
    Bt = np.array(qha.bulk_modulus_temperature)
    if not (len(Vt) == len(Gt) == len(Bt) == n):
        return fail("length", "%d temperatures reported, %d expected for t_max=%s" % (len(Vt), n, case["tmax"]))
    e = np.abs(Vt / V0[:n] - 1).max()
    if e > 1e-6:
        return fail("equilibrium-volume", "V(T) deviates from the equation's V0(T) by %.3g (rel); with +PV applied once the data are exactly that equation" % e, float(e))
    e = np.abs(Gt - E0[:n]).max()
    if e > 1e-6:
        return fail("gibbs-energy", "G(T) deviates from E0(T) by %.3g eV" % e, float(e))
    e = np.abs(Bt / (B0[:n] * EVAngstromToGPa) - 1).max()
    if e > 1e-5:
        return fail("bulk-modulus", "B(T) deviates from B0(T) by %.3g (rel, GPa)" % e, float(e))
    beta = np.array(qha.thermal_expansion)
    want = np.zeros(n)
    for i in range(1, n):
        want[i] = (V0[i + 1] - V0[i - 1]) / (T[i + 1] - T[i - 1]) / V0[i]
    if len(beta) != n or np.abs(beta - want).max() > 1e-9 + 1e-5 * np.abs(want).max():
        return fail("thermal-expansion", "thermal expansion differs from the documented central difference of V(T): %s vs %s" % (beta[:4].tolist(), want[:4].tolist()))
    cp = np.array(qha.heat_capacity_P_numerical)
    g = E0 * EvTokJmol * 1000
    wantc = np.zeros(n)
    for i in range(1, n):
        a = np.polyfit(T[i - 1:i + 2], g[i - 1:i + 2], 2)
        wantc[i] = -2 * a[0] * T[i]
    if len(cp) != n or np.abs(cp - wantc).max() > 1e-6 * max(np.abs(wantc).max(), 1.0) + 1e-3:
        return fail("heat-capacity-P", "C_P differs from -T d2G/dT2 by the documented three-point fit: %s vs %s" % (cp[:4].tolist(), wantc[:4].tolist()))
    if case["el"] == "TV-eos":
        try:
            e0_, b_, bp_, v0_ = (np.asarray(x, float) for x in qha.get_bulk_modulus_parameters())
        except Exception as ex:
            return fail("static-fit-raised", "%s: %s" % (type(ex).__name__, str(ex)[:100]))
        if np.shape(b_) != (len(T),):
            return fail("static-fit", "per-temperature static fit returns parameters of shape %s for %d temperatures" % (np.shape(b_), len(T)))
        dev = max(np.abs(e0_ - PT[:, 0]).max(), np.abs(b_ / PT[:, 1] - 1).max(), 0.1 * np.abs(bp_ / PT[:, 2] - 1).max(), np.abs(v0_ / PT[:, 3] - 1).max())
        if dev > 1e-5 or np.abs(np.asarray(qha.bulk_modulus, float) / PT[:, 1] - 1).max() > 1e-5:
            return fail("static-fit", "per-temperature static fit: B0(T) reported %s..., B0'(T) %s...; the data were made with B0 %s..., B0' %s..." % (
                np.round(np.asarray(qha.bulk_modulus, float)[:2], 5).tolist(), np.round(bp_[:2], 5).tolist(), PT[:2, 1].round(5).tolist(), PT[:2, 2].round(5).tolist()))
    if case["el"] == "eos":
        # the static fit (electronic energies alone, + PV) uses the same equation of state as the run
        try:
            e0_, b_, bp_, v0_ = qha.get_bulk_modulus_parameters()
        except Exception as ex:
            return fail("static-fit-raised", "%s: %s" % (type(ex).__name__, str(ex)[:100]))
        dev = max(abs(e0_ - PEL[0]), abs(b_ / PEL[1] - 1), abs(bp_ / PEL[2] - 1) * 0.1, abs(v0_ / PEL[3] - 1))
        if dev > 1e-5 or abs(qha.bulk_modulus / PEL[1] - 1) > 1e-5:
            return fail("static-fit", "static fit of electronic energies that are exactly this equation of state gives (E0,B0,B0',V0)=%s, bulk_modulus=%.5f; the data were made with %s" % (
                np.round([e0_, b_, bp_, v0_], 5).tolist(), qha.bulk_modulus, list(PEL)))
    hv = np.array(qha.helmholtz_volume)[:, np.argsort(perm)] if np.array(qha.helmholtz_volume).ndim == 2 else np.array(qha.helmholtz_volume)
    wantF = Ftot[:n] + Pev * V[None, :]
    if hv.shape != wantF.shape or np.abs(hv - wantF).max() > 1e-9:
        return fail("helmholtz-volume", "F(T,V) (+PV) differs from phonon + electronic (+PV) input by %.3g" % (np.abs(hv - wantF).max() if hv.shape == wantF.shape else -1))
    if case.get("writers"):
        # every writer is called (in a scratch directory); what the object answers afterwards is what it answered before
        import os
        import tempfile

        before = [np.array(qha.volume_temperature), np.array(qha.gibbs_temperature), np.array(qha.bulk_modulus_temperature), np.array(qha.thermal_expansion)]
        cwd = os.getcwd()
        with tempfile.TemporaryDirectory(prefix="c20_") as td:
            os.chdir(td)
            try:
                for nm in ("write_helmholtz_volume", "write_helmholtz_volume_fitted", "write_volume_temperature", "write_thermal_expansion", "write_gibbs_temperature",
                           "write_bulk_modulus_temperature", "write_heat_capacity_P_numerical", "write_heat_capacity_P_polyfit", "write_gruneisen_temperature"):
                    try:
                        if nm == "write_helmholtz_volume_fitted":
                            getattr(qha, nm)(3)
                            getattr(qha, nm)(1)
                        else:
                            getattr(qha, nm)()
                    except Exception as ex:
                        return fail("writer-raised", "%s: %s: %s" % (nm, type(ex).__name__, str(ex)[:80]))
                    after = [np.array(qha.volume_temperature), np.array(qha.gibbs_temperature), np.array(qha.bulk_modulus_temperature), np.array(qha.thermal_expansion)]
                    for a_, b_ in zip(before, after):
                        if a_.shape != b_.shape or np.abs(a_ - b_).max() > 0:
                            return fail("changed-by-writer", "after %s() the object reports other values (max change %.3g)" % (nm, np.abs(a_ - b_).max() if a_.shape == b_.shape else -1))
            finally:
                os.chdir(cwd)
    # history: the analysis run again on the same object (QHA.run is public) still returns the equation's values
    core = getattr(qha, "_qha", None)
    if core is not None and hasattr(core, "run"):
        first = [np.array(qha.volume_temperature), np.array(qha.gibbs_temperature), np.array(qha.bulk_modulus_temperature), np.array(qha.thermal_expansion)]
        try:
            import contextlib as _cl2
            import io as _io2

            with _cl2.redirect_stdout(_io2.StringIO()):
                core.run()
        except Exception as ex:
            return fail("rerun-raised", "second QHA.run() on the same object: %s: %s" % (type(ex).__name__, str(ex)[:100]))
        again = [np.array(qha.volume_temperature), np.array(qha.gibbs_temperature), np.array(qha.bulk_modulus_temperature), np.array(qha.thermal_expansion)]
        for nm_, a_, b_ in zip(("V(T)", "G(T)", "B(T)", "beta(T)"), first, again):
            if a_.shape != b_.shape or np.abs(a_ - b_).max() > 1e-9 * max(1.0, np.abs(a_).max()):
                return fail("changed-by-rerun", "after a second QHA.run() on the same object %s differs (max change %.3g): the run is not a function of the inputs" % (
                    nm_, np.abs(a_ - b_).max() if a_.shape == b_.shape else -1))
        if not np.array_equal(el_in, el_before):
            return fail("input-modified", "the electronic-energy array handed in was modified by a second run")
        return dict(ok=True, nontrivial=nontriv, transitions=2, outcome="ok:qha+rerun")
    return dict(ok=True, nontrivial=nontriv, transitions=1, outcome="ok:qha")


def run_group(cases, seed):
    fn = {"meaning": run_meaning, "fit": run_fit, "qha": run_qha}
    return [fn[c["kind"]](c) for c in cases]
