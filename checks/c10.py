"""C10 — thermal properties equal the harmonic closed forms and obey thermodynamic identities.

Product walk over frequency sets x weights x cutoff x imaginary-mode handling x band selection x projection x
statistics x language, each evaluated on a temperature grid that sweeps h nu/kT over the whole double range
(2^-40 ... 2^25, i.e. far beyond the range of exp).  Oracle: overflow-safe closed forms (vtk.ref.thermo).
"""
from __future__ import annotations

import itertools

import numpy as np

from vtk.ref import thermo as TH

ID = "C10"
VARIANT = "omp"
TECHNIQUE = "bounded-exhaustive product walk over (frequency set, weights, cutoff, imaginary-mode handling, band indices, projection, statistics, language) x temperature grid on the real ThermalProperties class; overflow-safe closed-form oracle and thermodynamic identities"
RULE = ("case = option tuple evaluated on the whole temperature grid; non-trivial = the grid contains both x=h nu/kT < 1e-6 and x > 710 for some "
        "integrated mode, or a cutoff / imaginary mode / band selection removes modes")
ASSUMPTIONS = ["unit constants of phonopy.units agree with CODATA-2018 to 2e-6 (checked); closed forms use phonopy's constants so that agreement is asked to 1e-9",
               "finite-difference identities are asked on a refined grid around moderate temperatures (tolerance from the step)"]
BUDGET = {"quick": 600, "thorough": 3000}

FSETS = ["spread", "typical", "typical-imag", "zero-and-tiny", "single-high"]
FSETS_T = FSETS + ["typical-b", "typical-c", "clustered"]
WEIGHTS = ["ones", "mixed", "huge"]
CUTOFF = [None, 0.0, "between", "above-all", 1e-3, -1.0]
IMAG = ["as-is", "pretend_real"]
BANDS = [None, "subset", "unsorted"]
PROJ = [False, True]
STAT = ["quantum", "classical"]
LANG = ["C", "Py"]


def selfcheck():
    TH.selfcheck()


class _Prim:
    Z = 1


class _DM:
    primitive = _Prim()


class FakeMesh:
    """Duck-typed mesh: exactly the attributes ThermalProperties reads."""

    def __init__(self, freqs, weights, eigvecs):
        self.frequencies = freqs
        self.weights = weights
        self.eigenvectors = eigvecs
        self.dynamical_matrix = _DM()


def fset(name, seed):
    g = np.random.default_rng(7 + seed)
    nq, nb = 4, 6
    if name == "spread":
        f = np.logspace(-6, 3, nq * nb).reshape(nq, nb)
        g.shuffle(f, axis=1)
    elif name in ("typical", "typical-b", "typical-c"):
        g = np.random.default_rng(7 + seed + {"typical": 0, "typical-b": 101, "typical-c": 202}[name])
        f = np.sort(g.uniform(0.4, 22.0, (nq, nb)), axis=1)
    elif name == "clustered":
        f = np.sort(5.0 + 1e-6 * g.uniform(0, 1, (nq, nb)), axis=1)
    elif name == "typical-imag":
        f = np.sort(g.uniform(0.4, 22.0, (nq, nb)), axis=1)
        f[0, 0] = -1.3
        f[2, 0] = -0.02
        f[2, 1] = -4.0
    elif name == "zero-and-tiny":
        f = np.sort(g.uniform(0.4, 22.0, (nq, nb)), axis=1)
        f[0, :3] = [0.0, 1e-9, -1e-9]
        f[1, 0] = 3e-5
    elif name in ("many", "many-3000"):
        # more q-points than any internal block size, every weight different in the tail
        nq = 1500 if name == "many" else 3000
        f = np.sort(g.uniform(0.4, 22.0, (nq, nb)), axis=1)
        f[nq // 2:, 0] *= 1e-3
    elif name == "single-high":
        f = np.full((nq, nb), 950.0)
        f[:, 0] = 1e-6
    return np.array(f, dtype="double", order="C")


def weights(name, nq):
    if name == "ones":
        return np.ones(nq, dtype="int64")
    if nq > 4:
        return (1 + (np.arange(nq, dtype="int64") * (7 if name == "mixed" else 2 ** 20 + 1)) % (13 if name == "mixed" else 2 ** 31))
    if name == "mixed":
        return np.array([1, 7, 2, 12][:nq], dtype="int64")
    return np.array([2 ** 31, 1, 3, 2 ** 20][:nq], dtype="int64")


def tgrid(tier="quick"):
    return np.concatenate([[0.0], np.logspace(-3, 7, 41 if tier == "quick" else 161)])


def plan(tier, seed):
    cases = []
    full = itertools.product(FSETS if tier == "quick" else FSETS_T, WEIGHTS, CUTOFF, IMAG, BANDS, PROJ, STAT, LANG)
    default = ("typical", "ones", None, "as-is", None, False, "quantum")
    for t in full:
        if tier == "quick":
            dev = sum(1 for a, b in zip(t[:7], default) if a != b)
            if dev > 4:
                continue
        cases.append(dict(zip(("fset", "weights", "cutoff", "imag", "bands", "proj", "stat", "lang"), t), tier=tier))
    # input arrays in other memory layouts / integer widths; meshes with more q-points than any block size
    keys = ("fset", "weights", "cutoff", "imag", "bands", "proj", "stat", "lang")
    # (memory layouts of the mesh arrays are NOT an input dimension here: ThermalProperties only ever receives a Mesh / IterMesh
    # object, whose arrays are C-contiguous double / int64 by construction; a first version of this check fed strided and
    # float-typed arrays through the duck-typed mesh and "found" wrong sums that no public route can produce)
    # temperatures handed over in other forms (this IS a public route: run_thermal_properties(temperatures=...))
    for tl in ("every-other", "table-column", "list"):
        for fs_, st_, lg, pj in itertools.product(("typical", "typical-imag"), STAT, LANG, PROJ):
            cases.append(dict(zip(keys, (fs_, "mixed", None, "as-is", None, pj, st_, lg)), tier=tier, tlayout=tl))
    for lay in ():
        for fs_, wt, st_, lg, pj in itertools.product(("typical", "typical-imag"), ("mixed", "ones"), STAT, LANG, PROJ):
            cases.append(dict(zip(keys, (fs_, wt, None, "as-is", None, pj, st_, lg)), tier=tier, layout=lay))
    for fs_ in ("many",) if tier == "quick" else ("many", "many-3000"):
        for wt, cut_, st_, lg, pj in itertools.product(WEIGHTS, (None, "between"), STAT, LANG, PROJ):
            if lg == "Py" and (tier == "quick" and (pj or cut_)):
                continue
            cases.append(dict(zip(keys, (fs_, wt, cut_, "as-is", None, pj, st_, lg)), tier="quick"))
    groups = [cases[k:k + 40] for k in range(0, len(cases), 40)]
    groups.append([{"kind": "end2end", "xtal": x, "lang": "C"} for x in ("NaCl-prim-2", "hcp-2", "tri-P1-3", "wurtzite-4")])
    groups.append([{"kind": "units"}])
    meta = {"alphabet": {"fsets": FSETS, "weights": WEIGHTS, "cutoff": [str(c) for c in CUTOFF], "imag": IMAG, "bands": [str(b) for b in BANDS],
                         "projection": PROJ, "statistics": STAT, "lang": LANG, "temperatures": len(tgrid())},
            "bound": "tuples within deviation 4 (of 7 option axes) of the default, both languages" if tier == "quick" else "complete product", "exhaustive": True,
            "not_covered": ["frequency sets other than the five families"]}
    return groups, meta


def oracle(freqs_thz, w, temps, cutoff_thz, classical, U):
    """Weighted sums of the closed forms over modes above the cutoff, in phonopy's units, with phonopy's constants."""
    kb = U.Kb
    e = freqs_thz * U.THzToEv
    cut = 0.0 if (cutoff_thz is None or cutoff_thz < 0) else cutoff_thz * U.THzToEv
    mask = e > cut
    W = np.asarray(w, float)[:, None] * mask
    out = np.zeros((len(temps), 3))
    fF, fS, fC = (TH.classical_F, TH.classical_S, TH.classical_Cv) if classical else (TH.mode_F, TH.mode_S, TH.mode_Cv)
    es = np.where(mask, e, 1.0)
    for k, T in enumerate(temps):
        if classical and T <= 0:
            continue
        out[k, 0] = (fF(es, T, kb) * W).sum()
        out[k, 1] = (fS(es, T, kb) * W).sum()
        out[k, 2] = (fC(es, T, kb) * W).sum()
    out /= np.sum(w)
    out[:, 0] *= U.EvTokJmol
    out[:, 1:] *= U.EvTokJmol * 1000
    return out, int(round(W.sum()))


def run_case(case, seed):
    import phonopy.units as U
    from phonopy.phonon.thermal_properties import ThermalProperties

    if case.get("kind") == "units":
        for nm, a, b in (("Kb", U.Kb, TH.KB_EV), ("THzToEv", U.THzToEv, TH.THZ_TO_EV), ("EvTokJmol", U.EvTokJmol, TH.EV_TO_KJMOL)):
            if abs(a / b - 1) > 2e-6:
                return dict(ok=False, sig="C10/units/" + nm, msg="phonopy.units.%s = %r, CODATA %r" % (nm, a, b))
        return dict(ok=True, outcome="ok:units", nontrivial=True)
    if case.get("kind") == "end2end":
        return run_end2end(case, seed)
    f = fset(case["fset"], seed)
    nq, nb = f.shape
    w = weights(case["weights"], nq)
    g = np.random.default_rng(11 + seed)
    ev = np.linalg.qr(g.normal(size=(nq, nb, nb)) + 1j * g.normal(size=(nq, nb, nb)))[0]
    classical = case["stat"] == "classical"
    cut = case["cutoff"]
    fs = np.sort(np.abs(f).ravel())
    if cut == "between":
        cut = float((fs[len(fs) // 3] + fs[len(fs) // 3 + 1]) / 2)
    elif cut == "above-all":
        cut = float(fs[-1] * 1.5)
    bi = None
    if case["bands"] == "subset":
        bi = [[0, 2], [3]]
    elif case["bands"] == "unsorted":
        bi = [[4, 1], [0]]
    pretend = case["imag"] == "pretend_real"
    tag = "%s/%s" % (case["lang"], case["stat"])
    f_in = f.copy()
    w_in = w.copy()
    lay = case.get("layout")
    if lay == "fortran":
        f_in = np.asfortranarray(f_in)
    elif lay == "strided":
        wide = np.full((nq, 2 * nb + 1), 777.0)
        wide[:, 1::2] = f
        f_in = wide[:, 1::2]
        w2 = np.full(2 * nq, 99, dtype=w.dtype)
        w2[::2] = w
        w_in = w2[::2]
    elif lay == "int32-weights" and w.max() < 2 ** 31:
        w_in = w.astype("int32")
    elif lay == "float-weights":
        w_in = w.astype("double")
    if lay:
        tag += "/input-layout=" + lay
        assert np.array_equal(f_in, f) and np.array_equal(np.asarray(w_in, dtype="int64"), w)
    mesh = FakeMesh(f_in, w_in, ev.copy() if (case["proj"] or True) else None)
    temps = tgrid(case.get("tier", "quick"))
    try:
        tp = ThermalProperties(mesh, cutoff_frequency=cut, pretend_real=pretend, band_indices=bi, is_projection=case["proj"], classical=classical)
        tl = case.get("tlayout")
        if tl == "every-other":
            t2 = np.repeat(temps, 2)
            t2[1::2] = 12345.0
            tp.temperatures = t2[::2]
        elif tl == "table-column":
            tab = np.zeros((len(temps), 3))
            tab[:, 0] = temps
            tab[:, 1] = 777.0
            tp.temperatures = tab[:, 0]
        elif tl == "list":
            tp.temperatures = temps.tolist()
        else:
            tp.temperatures = temps
        if tl:
            tag += "/temperatures-as-" + tl
        tp.run(lang=case["lang"])
        T, F, S, C = [np.array(a) for a in tp.thermal_properties]
        if case["proj"] and F.ndim == 2:
            # the pure-Python path stores per-band contributions when projection is on; the totals are their sums
            F, S, C = F.sum(axis=1), S.sum(axis=1), C.sum(axis=1)
    except Exception as e:
        if bi is not None and case["proj"] and isinstance(e, ValueError) and "broadcast" in str(e):
            # band_indices together with is_projection is not supported by ThermalProperties (shape mismatch raises):
            # nothing is reported, so nothing can be wrong; counted, see DESIGN.md
            return dict(ok=True, skipped="band_indices + is_projection raises ValueError (unsupported combination)")
        return dict(ok=False, sig="C10/raised/" + tag, msg="%s: %s: %s" % (case, type(e).__name__, str(e)[:200]))
    if not np.array_equal(mesh.frequencies, f) or not np.array_equal(mesh.weights, w):
        return dict(ok=False, sig="C10/input-modified/" + tag, msg="%s: the mesh's frequency/weight arrays were modified in place" % case)
    # effective frequency table
    fe = f if bi is None else f[:, np.hstack(bi)]
    if pretend:
        fe = np.abs(fe)
    want, nmodes = oracle(fe, w, T, cut, classical, U)
    x_all = (fe * U.THzToEv)[fe * U.THzToEv > (0 if cut is None else max(cut, 0) * U.THzToEv)]
    nontriv = bool(len(x_all) and ((x_all.max() / (U.Kb * T[1]) > 710 and x_all.min() / (U.Kb * T[-1]) < 1e-6) or cut not in (None, 0.0) or bi or (f < 0).any()))
    got = np.stack([F, S, C], axis=1)

    def fail(kind, msg, resid=None):
        return dict(ok=False, sig="C10/%s/%s" % (kind, tag), msg="%s: %s" % ({k: v for k, v in case.items()}, msg), resid=resid, nontrivial=nontriv)

    if tp.number_of_integrated_modes != int((np.asarray(w)[:, None] * (fe * U.THzToEv > (0.0 if cut is None or cut < 0 else cut * U.THzToEv))).sum()):
        return fail("mode-count", "number_of_integrated_modes=%s" % tp.number_of_integrated_modes)
    if not np.isfinite(got).all():
        k = int(np.argwhere(~np.isfinite(got))[0][0])
        col = "FSC"[int(np.argwhere(~np.isfinite(got))[0][1])]
        xs = x_all.max() / (U.Kb * T[k]) if T[k] > 0 and len(x_all) else 0
        feat = "overflow-regime" if xs > 700 else ("tiny-x" if xs < 1e-6 else "moderate-x")
        return fail("non-finite/%s/%s" % (col, feat), "%s is %s at T=%g K (largest h nu/kT = %.3g)" % (col, got[k, "FSC".index(col)], T[k], xs))
    scale = np.maximum(np.abs(want), 1e-12)
    # absolute floor: per-column scale (sums of many modes); relative 1e-9
    tol = 1e-9 * np.abs(want).max(axis=0)[None, :] + 1e-9 * np.abs(want)
    bad = np.abs(got - want) > tol + 1e-300
    if bad.any():
        k, c_ = np.argwhere(bad)[0]
        return fail("closed-form/%s" % "FSC"[c_], "%s(T=%g)=%r, closed form %r" % ("FSC"[c_], T[k], got[k, c_], want[k, c_]),
                    float(np.abs(got - want)[k, c_] / max(abs(want[k, c_]), 1e-300)))
    # T = 0
    if T[0] == 0 and (abs(S[0]) > 0 or abs(C[0]) > 0):
        return fail("T0", "S(0)=%r C(0)=%r" % (S[0], C[0]))
    if not classical:
        zpe = want[0, 0]
        if abs(tp.zero_point_energy - zpe) > 1e-9 * max(abs(zpe), 1e-12) or abs(F[0] - zpe) > 1e-9 * max(abs(zpe), 1e-12):
            return fail("zero-point-energy", "zero_point_energy=%r, F(0)=%r, sum of h nu/2 above cutoff=%r" % (tp.zero_point_energy, F[0], zpe))
        # sign and monotonicity (quantum statistics)
        if (S < -1e-12).any() or (C < -1e-12).any():
            return fail("negative", "negative entropy or heat capacity")
        for nm, arr in (("S", S), ("C", C)):
            d = np.diff(arr)
            if (d < -1e-9 * max(np.abs(arr).max(), 1e-30)).any():
                return fail("not-monotone/" + nm, "%s decreases with temperature" % nm)
        if nmodes:
            lim = C[-1] / (U.Kb * U.EvTokJmol * 1000) * float(np.sum(w))
            if abs(lim / nmodes - 1) > 1e-4 and case["fset"] != "single-high" and case["fset"] != "spread":
                return fail("classical-limit", "C_V/k_B at the hottest T = %.6f per mode" % (lim / nmodes))
    # projections sum to the total
    if case["proj"]:
        try:
            Tp, Fp, Sp_, Cp = [np.array(a) for a in tp._projected_thermal_properties]
        except Exception as e:
            return fail("projection-raised", str(e)[:100])
        for nm, tot, pr in (("F", F, Fp), ("S", S, Sp_), ("C", C, Cp)):
            if pr.ndim != 2 or not np.isfinite(pr).all():
                return fail("projection-non-finite", "projected %s not finite" % nm)
            if np.abs(pr.sum(axis=1) - tot).max() > 1e-8 * max(np.abs(tot).max(), 1e-12):
                return fail("projection-sum/" + nm, "sum of projected %s differs from the total by %.3g" % (nm, np.abs(pr.sum(axis=1) - tot).max()))
    # history and order: the same object run again with the caller's temperatures in another order (0 K in the middle of the
    # list), then once more in the first order: every row depends on its own temperature only
    if not case.get("tlayout"):
        perm = np.roll(np.arange(len(temps)), 5)
        for what, order in (("temperatures-permuted", perm), ("run-again", np.arange(len(temps)))):
            try:
                tp.temperatures = temps[order].copy()
                tp.run(lang=case["lang"])
                T2, F2, S2, C2 = [np.array(a) for a in tp.thermal_properties]
            except Exception as e:
                return fail("rerun-raised/" + what, "%s: %s" % (type(e).__name__, str(e)[:120]))
            if case["proj"] and F2.ndim == 2:
                F2, S2, C2 = F2.sum(axis=1), S2.sum(axis=1), C2.sum(axis=1)
            for nm, a, b in (("T", T[order], T2), ("F", F[order], F2), ("S", S[order], S2), ("C", C[order], C2)):
                if a.shape != b.shape or not np.allclose(a, b, rtol=1e-12, atol=1e-300, equal_nan=False):
                    k = int(np.argmax(~np.isclose(a, b, rtol=1e-12, atol=1e-300))) if a.shape == b.shape else 0
                    return fail("rerun/%s/%s" % (what, nm), "second run() on the same object (%s): %s at T=%g K is %r, first run gave %r" % (what, nm, T2[k] if len(T2) > k else -1, b[k] if len(b) > k else None, a[k] if len(a) > k else None))
    # thermodynamic identities on phonopy's own output (refined grid, quantum + classical)
    if case["fset"] in ("typical", "typical-imag", "typical-b", "typical-c") and cut != "above-all" and nmodes:
        for T0 in (30.0, 300.0, 3000.0):
            h = T0 * 2e-4
            tp2 = ThermalProperties(FakeMesh(f.copy(), w.copy(), ev.copy()), cutoff_frequency=cut, pretend_real=pretend, band_indices=bi, classical=classical)
            tp2.temperatures = [T0 - 2 * h, T0 - h, T0, T0 + h, T0 + 2 * h]
            tp2.run(lang=case["lang"])
            _, F2, S2, C2 = [np.array(a) for a in tp2.thermal_properties]
            dF = (-F2[4] + 8 * F2[3] - 8 * F2[1] + F2[0]) / (12 * h) * 1000  # kJ/mol/K -> J/mol/K
            dS = (-S2[4] + 8 * S2[3] - 8 * S2[1] + S2[0]) / (12 * h)
            eps = 2.2e-16
            # rounding of F (dominated by the zero-point energy) limits the difference quotient: ~ eps |F| / h
            if abs(-dF - S2[2]) > 1e-6 * abs(S2[2]) + 50 * eps * np.abs(F2).max() * 1000 / h + 1e-8:
                return fail("identity/S=-dF/dT", "T=%g: -dF/dT=%r S=%r" % (T0, -dF, S2[2]))
            if abs(T0 * dS - C2[2]) > 1e-6 * abs(C2[2]) + 50 * eps * np.abs(S2).max() * T0 / h + 1e-8:  # floor: rounding of log(1-e^-x) ~ eps k_B per mode, times T/h
                return fail("identity/Cv=TdS/dT", "T=%g: T dS/dT=%r Cv=%r" % (T0, T0 * dS, C2[2]))
    return dict(ok=True, nontrivial=nontriv, transitions=1, outcome="ok:" + tag, resid=float((np.abs(got - want) / (tol + 1e-300)).max() * 1e-9))


def run_end2end(case, seed):
    """Phonopy.run_thermal_properties on a real crystal == closed forms evaluated on get_mesh_dict(); C == Py."""
    import phonopy.units as U
    from vtk import scenarios as SC

    ph = SC.base({"xtal": case["xtal"], "S": [[2, 0, 0], [0, 1, 0], [0, 0, 1]] if case["xtal"] != "wurtzite-4" else [[1, 0, 0], [0, 1, 0], [0, 0, 1]]}, seed)
    for mesh, sym in (([3, 3, 2], True), ([2, 2, 2], False)):
        ph.run_mesh(mesh, is_mesh_symmetry=sym)
        md = ph.get_mesh_dict()
        for cut in (None, 1e-3, 2.0):
            for classical in (False, True):
                ph.run_thermal_properties(t_min=0, t_max=900, t_step=150, cutoff_frequency=cut, classical=classical)
                d = ph.get_thermal_properties_dict()
                T = d["temperatures"]
                if classical and cut is None:
                    continue  # log of rounding-noise frequencies at Gamma: not defined
                if cut is None:
                    continue  # modes with rounding-noise positive frequency are ill-conditioned (see DESIGN)
                want, _ = oracle(md["frequencies"], md["weights"], T, cut, classical, U)
                got = np.stack([d["free_energy"], d["entropy"], d["heat_capacity"]], axis=1)
                if not np.isfinite(got).all():
                    return dict(ok=False, sig="C10/end2end/non-finite", msg="%s mesh=%s cutoff=%s: non-finite" % (case["xtal"], mesh, cut))
                e = np.abs(got - want).max(axis=0) / np.maximum(np.abs(want).max(axis=0), 1e-12)
                if e.max() > 1e-8:
                    return dict(ok=False, sig="C10/end2end/closed-form/%s" % "FSC"[int(e.argmax())],
                                msg="%s mesh=%s sym=%s cutoff=%s classical=%s: run_thermal_properties differs from the closed forms on get_mesh_dict() by %.3g" % (
                                    case["xtal"], mesh, sym, cut, classical, e.max()), resid=float(e.max()))
    # a crystal with imaginary modes (negative on-site term): every keyword of the public entry points, one at a time and in pairs,
    # through run_thermal_properties and through the deprecated set_thermal_properties, which takes the same keywords
    import itertools
    import warnings

    fc = np.array(ph.force_constants)
    ph.run_mesh([2, 2, 2], is_mesh_symmetry=False)
    f0 = np.sort(np.array(ph.get_mesh_dict()["frequencies"]).ravel())
    fcut = f0[len(f0) // 3] + 0.37 * (f0[len(f0) // 3 + 1] - f0[len(f0) // 3])
    ms = np.asarray(ph.supercell.masses)
    fcu = fc.copy()
    for i in range(len(ms)):
        fcu[i, i] -= np.eye(3) * ms.min() * (fcut / U.VaspToTHz) ** 2
    ph.force_constants = fcu
    ntr = 12
    for mesh, sym in (([3, 3, 2], True), ([2, 2, 2], False)):
        ph.run_mesh(mesh, is_mesh_symmetry=sym, with_eigenvectors=not sym)
        md = ph.get_mesh_dict()
        fr = np.array(md["frequencies"])
        if not ((fr < -0.05).any() and (fr > 0.05).any()):
            raise RuntimeError("unstable model lost its purpose")
        nb = fr.shape[1]
        axes = {"pretend_real": (False, True), "cutoff_frequency": (0.05, 0.6 * fr.max()), "classical": (False, True), "band_indices": (None, [0, nb - 1, 2][:nb]),
                "temperatures": (None, [10.0, 300.0, 0.0, 77.0]), "is_projection": (False, True) if not sym else (False,)}
        keys = list(axes)
        for combo in itertools.product(*(range(len(axes[k])) for k in keys)):
            if sum(1 for c_ in combo if c_) > 2:
                continue
            kw = {k: axes[k][c_] for k, c_ in zip(keys, combo)}
            if kw["is_projection"] and kw["band_indices"] is not None:
                continue  # unsupported combination (refused with a ValueError), see above
            ph.run_thermal_properties(t_min=0, t_max=900, t_step=150, **kw)
            d1 = {k: np.array(v) for k, v in ph.get_thermal_properties_dict().items() if v is not None}
            with warnings.catch_warnings():
                warnings.simplefilter("ignore")
                ph.set_thermal_properties(t_min=0, t_max=900, t_step=150, **kw)
            d2 = {k: np.array(v) for k, v in ph.get_thermal_properties_dict().items() if v is not None}
            ntr += 2
            lab = ", ".join("%s=%s" % (k, kw[k]) for k, c_ in zip(keys, combo) if c_) or "defaults"
            for k in ("temperatures", "free_energy", "entropy", "heat_capacity"):
                if d1[k].shape != d2[k].shape or not np.array_equal(d1[k], d2[k], equal_nan=True):
                    return dict(ok=False, sig="C10/end2end/deprecated-entry-point/%s" % k, nontrivial=True,
                                msg="%s mesh=%s (%s): set_thermal_properties and run_thermal_properties with the same keywords report different %s" % (case["xtal"], mesh, lab, k))
            if kw["is_projection"]:
                continue
            ff = np.abs(fr) if kw["pretend_real"] else fr
            if kw["band_indices"] is not None:
                ff = ff[:, kw["band_indices"]]
            want, _ = oracle(ff, md["weights"], d1["temperatures"], kw["cutoff_frequency"], kw["classical"], U)
            got = np.stack([d1["free_energy"], d1["entropy"], d1["heat_capacity"]], axis=1)
            e = np.abs(got - want).max(axis=0) / np.maximum(np.abs(want).max(axis=0), 1e-12)
            if not np.isfinite(got).all() or e.max() > 1e-8:
                return dict(ok=False, sig="C10/end2end/unstable/closed-form/%s" % "FSC"[int(np.nanargmax(e))], nontrivial=True, resid=float(np.nanmax(e)),
                            msg="%s mesh=%s sym=%s (%s): run_thermal_properties on a crystal with imaginary modes differs from the closed forms over the documented set of modes by %.3g" % (
                                case["xtal"], mesh, sym, lab, np.nanmax(e)))
    return dict(ok=True, nontrivial=True, transitions=ntr, outcome="ok:end2end")


def run_group(cases, seed):
    return [run_case(c, seed) for c in cases]
