"""QSET alphabet, generated without phonopy."""
from __future__ import annotations

import itertools

import numpy as np

from vtk.ref import lattice as RL


def commensurate(Sp):
    """All q (mod 1) with Sp^T q integral; Sp = integer supercell matrix relative to the primitive cell.
    Brute force over integer m in a box: q = (Sp^T)^-1 m."""
    Sp = np.array(Sp, dtype=int)
    d = abs(RL.det3(Sp))
    adjT = np.array(RL.adjugate(Sp.T), dtype=np.int64)  # adj(Sp^T) Sp^T = det I
    sgn = 1 if RL.det3(Sp) > 0 else -1
    seen = {}
    r = 0
    while len(seen) < d:
        for m in itertools.product(range(-r, r + 1), repeat=3):
            if max(abs(x) for x in m) != r:
                continue
            num = (adjT @ np.array(m, dtype=np.int64)) * sgn  # q = num / d
            key = tuple(int(x % d) for x in num)
            if key not in seen:
                seen[key] = np.array(key, float) / d
        r += 1
        if r > 2 * d + 3:
            raise AssertionError("commensurate enumeration did not close")
    return [seen[k] for k in sorted(seen)]


def zone_boundary():
    return [np.array(t, float) for t in itertools.product((0.0, 0.5), repeat=3)]


def generic(seed, n=4):
    g = np.random.default_rng(4242 + seed)
    return [g.uniform(-0.5, 0.5, 3).round(6) for _ in range(n)]


def near_gamma():
    return [np.array(v, float) * 1e-4 for v in ((1, 0, 0), (0, 1, 0), (1, 1, 1))]


GSHIFTS = [np.array(g, float) for g in itertools.product((-1, 0, 1), repeat=3)]


def layouts(qs):
    """The same q-points in every memory layout numpy users produce: name -> array equal to qs element by element."""
    qs = np.array(qs, dtype="double", order="C")
    n = len(qs)
    wide = np.zeros((n, 6))
    wide[:, 1:4] = qs
    wide[:, 0] = 7.0
    wide[:, 4:] = -3.0
    twice = np.repeat(qs, 2, axis=0)
    twice[1::2] += 0.123
    out = {
        "fortran-order": np.asfortranarray(qs),
        "transpose-of-components": np.array([qs[:, 0], qs[:, 1], qs[:, 2]]).T,
        "column-slice-of-table": wide[:, 1:4],
        "every-other-row": twice[::2],
        "negative-stride": qs[::-1].copy()[::-1],
        "float32-exact": None,
        "list-of-lists": qs.tolist(),
    }
    q32 = qs.astype("float32")
    if np.array_equal(q32.astype("double"), qs):
        out["float32-exact"] = q32
    else:
        del out["float32-exact"]
    for k, v in out.items():
        assert np.array_equal(np.asarray(v, dtype="double"), qs), k
    return out
