"""Harmonic-oscillator thermodynamics in overflow-safe closed forms (independent of phonopy).

Energies in eV, temperatures in K.  x = e/(kT).
  F  = e/2 + kT log(1 - exp(-x))            = e/2 + kT log(-expm1(-x))
  S  = k [ x/(exp(x)-1) - log(1-exp(-x)) ]  = k [ x exp(-x)/(-expm1(-x)) - log(-expm1(-x)) ]
  Cv = k x^2 exp(x)/(exp(x)-1)^2            = k x^2 exp(-x)/expm1(-x)^2
All finite for every x in (0, inf) representable in double precision.
"""
from __future__ import annotations

import numpy as np

# CODATA 2018 (exact SI definitions)
KB_EV = 1.380649e-23 / 1.602176634e-19          # eV/K
H_EV_S = 6.62607015e-34 / 1.602176634e-19       # eV s
THZ_TO_EV = H_EV_S * 1e12
EV_TO_KJMOL = 1.602176634e-19 * 6.02214076e23 / 1000.0


def mode_F(e, T, kb=KB_EV):
    e = np.asarray(e, float)
    if T <= 0:
        return e / 2
    x = e / (kb * T)
    with np.errstate(all="ignore"):
        return e / 2 + kb * T * np.log(-np.expm1(-x))


def mode_S(e, T, kb=KB_EV):
    e = np.asarray(e, float)
    if T <= 0:
        return np.zeros_like(e)
    x = e / (kb * T)
    with np.errstate(all="ignore"):
        em = np.exp(-x)
        d = -np.expm1(-x)
        return kb * (x * em / d - np.log(d))


def mode_Cv(e, T, kb=KB_EV):
    e = np.asarray(e, float)
    if T <= 0:
        return np.zeros_like(e)
    x = e / (kb * T)
    with np.errstate(all="ignore"):
        r = x * np.exp(-x / 2) / np.expm1(-x)   # Cv = k [x e^{-x/2}/(1-e^{-x})]^2 : no overflow, no 0/0
        return kb * r * r


def classical_F(e, T, kb=KB_EV):
    e = np.asarray(e, float)
    if T <= 0:
        return np.zeros_like(e)
    return kb * T * np.log(e / (kb * T))


def classical_S(e, T, kb=KB_EV):
    e = np.asarray(e, float)
    if T <= 0:
        return np.zeros_like(e)
    return kb - kb * np.log(e / (kb * T))


def classical_Cv(e, T, kb=KB_EV):
    e = np.asarray(e, float)
    if T <= 0:
        return np.zeros_like(e)
    return np.full_like(e, kb)


def selfcheck():
    # identities between the closed forms: S = -dF/dT, Cv = T dS/dT by high-order differences at moderate x
    for e in (0.004, 0.03, 0.2):
        for T in (40.0, 300.0, 2500.0):
            h = T * 1e-4
            dF = (-mode_F(e, T + 2 * h) + 8 * mode_F(e, T + h) - 8 * mode_F(e, T - h) + mode_F(e, T - 2 * h)) / (12 * h)
            assert abs(-dF - mode_S(e, T)) < 1e-9 * KB_EV + 1e-7 * abs(mode_S(e, T)), (e, T)
            dS = (-mode_S(e, T + 2 * h) + 8 * mode_S(e, T + h) - 8 * mode_S(e, T - h) + mode_S(e, T - 2 * h)) / (12 * h)
            assert abs(T * dS - mode_Cv(e, T)) < 1e-9 * KB_EV + 1e-7 * abs(mode_Cv(e, T)), (e, T)
    # limits and finiteness over the whole double range of x
    for x in (1e-300, 1e-12, 1e-3, 1.0, 30.0, 700.0, 800.0, 1e5, 1e300):
        T = 1.0
        e = x * KB_EV * T
        for f in (mode_F, mode_S, mode_Cv):
            assert np.isfinite(f(e, T)), (f.__name__, x)
    assert abs(mode_Cv(1e-9, 1000.0) / KB_EV - 1) < 1e-9
    assert mode_Cv(1.0, 1.0) == 0.0 and mode_S(1.0, 1.0) < 1e-300


def supercell_covariance(fc, masses, T, factor_thz, cutoff_thz, hbar_ev_s, ev, amu, kb_ev, classical=False, pinv=False):
    """Canonical displacement covariance <u u^T> (Angstrom^2) of a finite periodic supercell from a direct
    diagonalisation of the 3N x 3N mass-weighted force-constant matrix.  Modes with |frequency| <= cutoff are left out
    (imaginary modes enter with |omega|, as phonopy documents).  With pinv=True returns M^1/2 [sum 1/a^2 e e^T] M^1/2."""
    n = len(masses)
    m3 = np.repeat(np.asarray(masses, float), 3)
    D = fc.transpose(0, 2, 1, 3).reshape(3 * n, 3 * n) / np.sqrt(m3[:, None] * m3[None, :])
    D = (D + D.T) / 2
    lam, e = np.linalg.eigh(D)
    f = np.sqrt(np.abs(lam)) * factor_thz          # THz
    keep = f > cutoff_thz
    w = 2 * np.pi * f[keep] * 1e12                  # rad/s
    if classical:
        a2 = kb_ev * ev * T / w ** 2                # J s^2 = kg m^2
    else:
        x = hbar_ev_s * w / (kb_ev * T) if T > 0 else np.full_like(w, np.inf)
        with np.errstate(over="ignore"):
            nb = np.where(np.isinf(x), 0.0, 1.0 / np.expm1(x))
        a2 = hbar_ev_s * ev / w * (0.5 + nb)
    a2 = a2 / amu / 1e-20                           # amu Angstrom^2
    ek = e[:, keep]
    if pinv:
        core = (ek / a2[None, :]) @ ek.T
        return core * np.sqrt(m3[:, None] * m3[None, :])
    core = (ek * a2[None, :]) @ ek.T
    return core / np.sqrt(m3[:, None] * m3[None, :])
