"""C16 — saving and reloading a calculation reproduces it.

Product walk (all tuples within a deviation bound of a default configuration) over cells (extended symbols, collinear
and non-collinear moments incl. zeros, custom masses) x supercell/primitive matrices x dataset kind x force-constant
layout x NAC x all 2^5 settings dictionaries x compression x calculator x value scale: Phonopy.save -> phonopy.load
field by field and by phonons; FORCE_SETS / FORCE_CONSTANTS / hdf5 / BORN writers against their parsers; dataset
type-1 <-> type-2 conversion.  Histories: another save() with each settings dictionary just before the save under
test; masses assigned through the setter (1-3 times) before saving; force constants kept in force_constants.hdf5 with
each calculator's unit next to a yaml without them; a file holding forces AND other force constants loaded with
default options (the stored ones win).
"""
from __future__ import annotations

import copy
import itertools
import os
import tempfile

import numpy as np

from vtk import phx

ID = "C16"
VARIANT = "omp"
TECHNIQUE = "bounded-exhaustive product walk (deviation-bounded tuples; all 32 settings dictionaries) over writer/reader pairs on the real save()/load() and file_IO functions; field-by-field round-trip oracle at the printed precision"
RULE = ("case = one (cell, S, P, dataset, fc, nac, settings, compression, calculator, scale) tuple or one file-level round trip; non-trivial = "
        "the tuple deviates from the default in at least one axis")
ASSUMPTIONS = ["tolerances are half a unit of the last printed digit of each field (masses and factors are written with %f)",
               "phonons of the reloaded object are compared with phonons of the original computed with the masses as written"]
BUDGET = {"quick": 900, "thorough": 3400}

AX = {
    "cell": ["NaCl", "wurtzite", "tri3", "NaCl-ext", "Cr-col", "Cr-col-zero", "Cr-ncl", "NaCl-mass"],
    "S": ["222", "211", "nondiag"],
    "pm": ["none", "auto"],
    "dataset": ["type1", "none", "type1+E", "type2", "type2+E", "type1-noforces", "type1-partial"],
    "fc": ["none", "full", "compact"],
    "nac": ["none", "born", "born+method"],
    "settings": list(range(32)),
    "compression": [False, True, "xz"],
    "calculator": [None, "qe", "abinit"],
    "scale": [1.0, 1e-7, 1e5],
}
SKEYS = ["force_sets", "displacements", "force_constants", "born_effective_charge", "dielectric_constant"]
DEFAULT = {k: v[0] for k, v in AX.items()}
DEFAULT["settings"] = -1  # None


def plan(tier, seed):
    bound = 2 if tier == "quick" else 3
    keys = list(AX)
    cases = []
    seen = set()
    for r in range(bound + 1):
        for ks in itertools.combinations(keys, r):
            for vals in itertools.product(*[[v for v in AX[k] if v != DEFAULT[k]] for k in ks]):
                d = dict(DEFAULT)
                d.update(dict(zip(ks, vals)))
                key = tuple(str(d[k]) for k in keys)
                if key in seen:
                    continue
                seen.add(key)
                if tier == "quick" and r == 2 and "settings" in ks and d["settings"] not in (0, 3, 4, 7, 24, 31) and not ({"dataset", "fc", "nac"} & set(ks)):
                    continue
                cases.append(dict(d, kind="saveload"))
    # save history: another save() with each of the 33 settings dictionaries happens in the same process just before the
    # save under test (three representative calculations, default and explicit settings)
    for pre in [-1] + list(range(32)):
        for dev in ({"nac": "born"}, {"fc": "full", "nac": "born+method"}, {"dataset": "none", "fc": "compact"}, {"nac": "born", "settings": 31}, {"nac": "born", "settings": 4}):
            cases.append(dict(DEFAULT, kind="saveload", pre=pre, **dev))
    groups = [cases[k:k + 25] for k in range(0, len(cases), 25)]
    fl = []
    for name in ("NaCl", "wurtzite", "tri3", "rhomb", "hcp", "Cr-col", "trigP3"):
        for what in ("FORCE_SETS-1", "FORCE_SETS-2", "FORCE_CONSTANTS", "fc-hdf5", "BORN", "type-conversion"):
            for scale in (1.0, 1e-7, 1e5):
                fl.append({"kind": "file", "cell": name, "what": what, "scale": scale})
    groups += [fl[k:k + 18] for k in range(0, len(fl), 18)]
    hs = []
    for cell_, S_, pm_ in (("NaCl", "222", "none"), ("NaCl", "nondiag", "none"), ("wurtzite", "222", "none"), ("tri3", "211", "none"), ("NaCl-ext", "222", "none")):
        for n in (1, 2, 3):
            hs.append({"kind": "history", "what": "masses-through-setter", "cell": cell_, "S": S_, "pm": pm_, "n": n})
    for calc in (None, "qe", "wien2k", "abinit", "siesta", "cp2k", "crystal", "dftbp", "turbomole", "elk", "abacus", "aims", "castep", "fleur", "lammps", "pwmat", "vasp"):
        for layout in ("full", "compact"):
            hs.append({"kind": "history", "what": "external-fc-hdf5", "cell": "NaCl", "calc": calc, "layout": layout})
    for cell_ in ("NaCl", "wurtzite", "tri3"):
        for layout in ("full", "compact"):
            hs.append({"kind": "history", "what": "stored-fc-win", "cell": cell_, "layout": layout})
    groups += [hs[k:k + 10] for k in range(0, len(hs), 10)]
    meta = {"alphabet": {k: [str(x) for x in v] if k != "settings" else "all 32 subsets of %s (+None)" % SKEYS for k, v in AX.items()},
            "bound": "all tuples within deviation %d of the default tuple; file-level: complete product" % bound, "exhaustive": True,
            "not_covered": ["hdf5_settings (NotImplemented in phonopy)", "MLP datasets"]}
    return groups, meta


def make_cell(name):
    from phonopy.structure.atoms import PhonopyAtoms

    a = 5.6
    prim = [[0, a / 2, a / 2], [a / 2, 0, a / 2], [a / 2, a / 2, 0]]
    if name in ("NaCl", "NaCl-ext", "NaCl-mass"):
        sym = ["Na", "Cl"] if name != "NaCl-ext" else ["Na", "Cl1"]
        masses = None if name == "NaCl" else [22.98976928, 35.453 if name == "NaCl-ext" else 1.23456789e-3 * 1e4]
        return PhonopyAtoms(symbols=sym, cell=prim, scaled_positions=[[0, 0, 0], [0.5, 0.5, 0.5]], masses=masses), "NaCl-prim-2"
    if name == "wurtzite":
        return phx.X.to_phonopy(phx.xtal("wurtzite-4")), "wurtzite-4"
    if name == "tri3":
        return phx.X.to_phonopy(phx.xtal("tri-P1-3")), "tri-P1-3"
    if name == "rhomb":
        return phx.X.to_phonopy(phx.xtal("rhomb-prim-2")), "rhomb-prim-2"
    if name == "trigP3":
        return phx.X.to_phonopy(phx.xtal("trig-P3-4")), "trig-P3-4"
    if name == "hcp":
        return phx.X.to_phonopy(phx.xtal("hcp-2")), None
    if name.startswith("Cr"):
        mag = {"Cr-col": [1.0, -1.0], "Cr-col-zero": [0.0, 1.5], "Cr-ncl": [[0, 0, 1.0], [0.3, 0, -1.0]]}[name]
        return PhonopyAtoms(symbols=["Cr", "Cr"], cell=np.eye(3) * 2.9, scaled_positions=[[0, 0, 0], [0.5, 0.5, 0.5]], magnetic_moments=mag), None
    raise ValueError(name)


def build(case, seed):
    from phonopy import Phonopy
    from vtk import scenarios as SC
    from vtk.ref import springs as SP

    cell, nacname = make_cell(case["cell"])
    S = {"222": np.diag([2, 2, 2]), "211": np.diag([2, 1, 1]), "nondiag": [[1, 1, 0], [-1, 1, 0], [0, 0, 1]]}[case.get("S", "222")]
    if len(cell) > 3 and case.get("S", "222") == "222":
        S = np.diag([2, 2, 1])
    pm = None if case.get("pm", "none") == "none" else "auto"
    if pm == "auto" and cell.magnetic_moments is not None:
        pm = None
    from phonopy.interface.calculator import get_default_physical_units

    # "with that calculator's default unit factor": the original is set up the way load() will set up the copy
    factor = get_default_physical_units(case.get("calculator"))["factor"]
    ph = phx.quiet(Phonopy, cell, supercell_matrix=S, primitive_matrix=pm, calculator=case.get("calculator"), factor=factor)
    sc = ph.supercell
    fcref = SP.folded_fc(np.asarray(sc.cell), sc.positions, [s.rstrip("0123456789") for s in sc.symbols], SP.SpringModel(rc=4.2, seed=seed)) * case.get("scale", 1.0)
    ds = case.get("dataset", "type1")
    if ds != "none":
        phx.quiet(ph.generate_displacements, distance=0.03)
        d = ph.dataset
        F = SP.forces_for_dataset(fcref, d)
        if ds.startswith("type2"):
            n = len(d["first_atoms"])
            disp = np.zeros((n, len(sc), 3))
            for i, x in enumerate(d["first_atoms"]):
                disp[i, x["number"]] = x["displacement"]
            g = np.random.default_rng(5 + seed)
            disp += 0.01 * g.normal(size=disp.shape)
            F = -np.einsum("ijab,sjb->sia", fcref, disp)
            ph.dataset = {"displacements": disp, "forces": F}
            if ds.endswith("+E"):
                ph.supercell_energies = np.arange(n) * 0.123456789012 * case.get("scale", 1.0) - 3.3
        elif ds == "type1-partial":
            # forces collected for the first displacement only (a run in progress)
            dsp = copy.deepcopy(ph.dataset)
            dsp["first_atoms"][0]["forces"] = np.array(F[0], dtype="double")
            ph.dataset = dsp
        elif ds != "type1-noforces":
            ph.forces = F
            if ds.endswith("+E"):
                ph.supercell_energies = np.arange(len(F)) * 0.123456789012 * case.get("scale", 1.0) - 3.3
    fck = case.get("fc", "none")
    if fck != "none":
        ph.force_constants = np.array(fcref if fck == "full" else fcref[np.asarray(ph.primitive.p2s_map)], dtype="double", order="C")
    nk = case.get("nac", "none")
    if nk != "none" and nacname and ph.unitcell.magnetic_moments is None:
        g = np.random.default_rng(8 + seed)
        nat = len(ph.primitive)
        born = np.array([np.eye(3) * (1.1 if i % 2 == 0 else -1.1) for i in range(nat)]) + 0.05 * g.normal(size=(nat, 3, 3))
        born -= born.mean(axis=0)
        eps = np.eye(3) * 2.4 + 0.1 * np.diag(g.normal(size=3))
        npar = {"born": born, "dielectric": eps, "factor": 14.399652}
        if nk == "born+method":
            npar["method"] = "wang"
        ph.nac_params = npar
    return ph, fcref


def cells_equal(a, b, what, tol=1e-14):
    if a is None or b is None:
        return None if (a is None and b is None) else what + ": one side missing"
    if a.symbols != b.symbols:
        return "%s symbols %s -> %s" % (what, a.symbols, b.symbols)
    if np.abs(np.asarray(a.cell) - np.asarray(b.cell)).max() > tol * max(1, np.abs(a.cell).max()):
        return what + " lattice"
    dpos = a.scaled_positions - b.scaled_positions
    if np.abs(dpos - np.rint(dpos)).max() > 1e-13:  # cells other than the unit cell are rebuilt at load time
        return what + " positions (max %.3g)" % np.abs(dpos - np.rint(dpos)).max()
    if np.abs(np.asarray(a.masses) - np.asarray(b.masses)).max() > 5.1e-7:
        return "%s masses %s -> %s" % (what, a.masses, b.masses)
    ma, mb = a.magnetic_moments, b.magnetic_moments
    if (ma is None) != (mb is None):
        return "%s magnetic moments %s -> %s" % (what, ma, mb)
    if ma is not None and (np.shape(ma) != np.shape(mb) or np.abs(np.asarray(ma) - np.asarray(mb)).max() > 1e-8):
        return "%s magnetic moments %s -> %s" % (what, np.asarray(ma).tolist(), np.asarray(mb).tolist())
    return None


def run_saveload(case, seed):
    import phonopy

    tag = "ds=%s/fc=%s/nac=%s" % (case["dataset"], case["fc"], case["nac"])
    nontriv = any(str(case[k]) != str(DEFAULT[k]) for k in AX)

    def fail(kind, msg):
        return dict(ok=False, sig="C16/saveload/%s" % kind, nontrivial=nontriv, msg="%s: %s" % ({k: case[k] for k in AX}, msg))

    try:
        ph, fcref = build(case, seed)
    except Exception as e:
        return fail("build-raised", "%s: %s" % (type(e).__name__, str(e)[:150]))
    settings = None
    if case["settings"] != -1:
        settings = {k: bool(case["settings"] >> i & 1) for i, k in enumerate(SKEYS)}
    eff = {"force_sets": True, "displacements": True, "force_constants": False, "born_effective_charge": True, "dielectric_constant": True}
    if settings:
        eff.update(settings)
    from phonopy.structure.dataset import forces_in_dataset

    if not (settings and settings.get("force_constants") is False) and not forces_in_dataset(ph.dataset) and ph.force_constants is not None:
        eff["force_constants"] = True
    with tempfile.TemporaryDirectory(prefix="c16_") as td:
        fn = os.path.join(td, "phonopy_params.yaml")
        if case.get("pre") is not None:
            tag += "/after-save"
            php, _ = build(dict(DEFAULT, fc="full", nac="born"), seed)
            pset = None if case["pre"] == -1 else {k: bool(case["pre"] >> i & 1) for i, k in enumerate(SKEYS)}
            php.save(os.path.join(td, "previous.yaml"), settings=pset)
        try:
            out = ph.save(fn, settings=settings, compression=case["compression"])
        except Exception as e:
            return fail("save-raised", "%s: %s" % (type(e).__name__, str(e)[:150]))
        if not os.path.exists(out):
            return fail("save-filename", "save() returned %s which does not exist" % out)
        cwd = os.getcwd()
        os.chdir(td)
        try:
            ph2 = phx.quiet(phonopy.load, out, produce_fc=False, is_nac=True, log_level=0)
        except Exception as e:
            os.chdir(cwd)
            return fail("load-raised", "%s: %s" % (type(e).__name__, str(e)[:200]))
        # field by field
        for nm, a, b in (("unitcell", ph.unitcell, ph2.unitcell), ("supercell", ph.supercell, ph2.supercell), ("primitive", ph.primitive, ph2.primitive)):
            bad = cells_equal(a, b, nm)
            if bad:
                os.chdir(cwd)
                return fail("cell", bad)
        if not np.array_equal(ph.supercell_matrix, ph2.supercell_matrix):
            os.chdir(cwd)
            return fail("supercell_matrix", "%s -> %s" % (ph.supercell_matrix.tolist(), ph2.supercell_matrix.tolist()))
        pa = np.eye(3) if ph.primitive_matrix is None else np.asarray(ph.primitive_matrix)
        pb = np.eye(3) if ph2.primitive_matrix is None else np.asarray(ph2.primitive_matrix)
        if np.abs(pa - pb).max() > 1e-14:
            os.chdir(cwd)
            return fail("primitive_matrix", "%s -> %s" % (pa.tolist(), pb.tolist()))
        if (ph.calculator or None) != (ph2.calculator or None):
            os.chdir(cwd)
            return fail("calculator", "%s -> %s" % (ph.calculator, ph2.calculator))
        d1, d2 = ph.dataset, ph2.dataset
        if d1 is not None and eff["displacements"]:
            if d2 is None:
                os.chdir(cwd)
                return fail("dataset-lost", "dataset written (displacements=True) but not loaded")
            if "first_atoms" in d1:
                if "first_atoms" not in d2 or len(d1["first_atoms"]) != len(d2["first_atoms"]):
                    os.chdir(cwd)
                    return fail("dataset-type", "type-1 dataset changed type or length")
                for x, y in zip(d1["first_atoms"], d2["first_atoms"]):
                    if x["number"] != y["number"] or np.abs(np.asarray(x["displacement"]) - np.asarray(y["displacement"])).max() > 1e-15:
                        os.chdir(cwd)
                        return fail("dataset-displacement", "displacement changed")
                    if "forces" in x and eff["force_sets"]:
                        if "forces" not in y or np.abs(np.asarray(x["forces"]) - np.asarray(y["forces"])).max() > 1e-15 * max(1.0, np.abs(x["forces"]).max()):
                            os.chdir(cwd)
                            return fail("dataset-forces", "forces changed or lost (max |F| = %.3g)" % np.abs(x["forces"]).max())
                    if "supercell_energy" in x and eff["force_sets"]:
                        if "supercell_energy" not in y or abs(x["supercell_energy"] - y["supercell_energy"]) > 0.51e-8:
                            os.chdir(cwd)
                            return fail("dataset-energy", "supercell energy %r -> %r" % (x.get("supercell_energy"), y.get("supercell_energy")))
            else:
                if "displacements" not in d2 or np.abs(d1["displacements"] - d2["displacements"]).max() > 1e-15:
                    os.chdir(cwd)
                    return fail("dataset-displacement", "type-2 displacements changed")
                if eff["force_sets"] and ("forces" not in d2 or np.abs(d1["forces"] - d2["forces"]).max() > 1e-15 * max(1.0, np.abs(d1["forces"]).max())):
                    os.chdir(cwd)
                    return fail("dataset-forces", "type-2 forces changed or lost")
                if eff["force_sets"] and "supercell_energies" in d1 and ("supercell_energies" not in d2 or np.abs(np.asarray(d1["supercell_energies"]) - np.asarray(d2["supercell_energies"])).max() > 0.51e-8):
                    os.chdir(cwd)
                    return fail("dataset-energy", "type-2 supercell energies changed or lost")
        if ph.force_constants is not None and eff["force_constants"]:
            f2 = ph2.force_constants
            if f2 is None:
                os.chdir(cwd)
                return fail("fc-lost", "force constants were to be written but the reloaded object has none")
            want = ph.force_constants
            if f2.shape != want.shape:
                p2s = np.asarray(ph.primitive.p2s_map)
                want = fcref[p2s] if f2.shape[0] != f2.shape[1] else fcref
            if f2.shape != want.shape or np.abs(f2 - want).max() > 0.51e-15 * max(1.0, 1.0):
                if f2.shape != want.shape or np.abs(f2 - want).max() > 0.51e-15 + 1e-15 * np.abs(want).max():
                    os.chdir(cwd)
                    return fail("fc-values", "force constants differ by %.3g (max |fc| %.3g)" % (np.abs(f2 - want).max() if f2.shape == want.shape else -1, np.abs(want).max()))
        n1, n2 = ph.nac_params, ph2.nac_params
        if n1 is not None and eff["born_effective_charge"] and eff["dielectric_constant"]:
            if n2 is None:
                os.chdir(cwd)
                return fail("nac-lost", "NAC parameters not reloaded")
            if np.abs(n1["born"] - n2["born"]).max() > 1e-14 or np.abs(n1["dielectric"] - n2["dielectric"]).max() > 1e-14:
                os.chdir(cwd)
                return fail("nac-values", "Born charges / dielectric tensor changed by %.3g" % max(np.abs(n1["born"] - n2["born"]).max(), np.abs(n1["dielectric"] - n2["dielectric"]).max()))
            if abs(n1["factor"] - n2.get("factor", np.nan)) > 5.1e-7:
                os.chdir(cwd)
                return fail("nac-factor", "factor %r -> %r" % (n1["factor"], n2.get("factor")))
            if n1.get("method") and n2.get("method") != n1.get("method"):
                os.chdir(cwd)
                return fail("nac-method", "method %r -> %r" % (n1.get("method"), n2.get("method")))
        # phonons
        if (ph.force_constants is not None and eff["force_constants"]) or (forces_in_dataset(ph.dataset) and eff["force_sets"] and eff["displacements"] and "first_atoms" in ph.dataset):
            try:
                ph3 = phx.quiet(phonopy.load, out, produce_fc=True, is_compact_fc=False, symmetrize_fc=False, fc_calculator="traditional", log_level=0)
                qs = [[0.1, 0.2, 0.3], [0.5, 0, 0], [0.0, 0.0, 0.02]]
                if ph.force_constants is None:
                    phx.quiet(ph.produce_force_constants, show_drift=False)
                if ph.nac_params is not None and not (eff["born_effective_charge"] and eff["dielectric_constant"]):
                    ph.nac_params = None  # NAC was deliberately not written: compare the calculation that was written
                ph.run_qpoints(qs)
                ph3.run_qpoints(qs)
                f1, f3 = ph.get_qpoints_dict()["frequencies"], ph3.get_qpoints_dict()["frequencies"]
                l1, l3 = np.sign(f1) * f1 * f1, np.sign(f3) * f3 * f3
                if np.abs(l1 - l3).max() > 2e-6 * max(np.abs(l1).max(), 1e-30):
                    os.chdir(cwd)
                    return fail("phonons", "frequencies of the reloaded calculation differ (eigenvalue level rel %.3g)" % (np.abs(l1 - l3).max() / np.abs(l1).max()))
            except Exception as e:
                os.chdir(cwd)
                return fail("reload-phonons-raised", "%s: %s" % (type(e).__name__, str(e)[:200]))
        os.chdir(cwd)
    return dict(ok=True, nontrivial=nontriv, transitions=3, outcome="ok:saveload")


def run_file(case, seed):
    from phonopy import file_IO as IO
    from phonopy.structure.dataset import get_displacements_and_forces

    nontriv = True
    base = {"cell": case["cell"], "S": "211" if case["cell"] in ("wurtzite", "tri3", "trigP3") else "222", "dataset": "type1", "fc": "full", "nac": "born", "scale": case["scale"]}

    def fail(kind, msg):
        return dict(ok=False, sig="C16/file/%s/%s" % (case["what"], kind), nontrivial=True, msg="%s scale=%g: %s" % (case["cell"], case["scale"], msg))

    ph, fcref = build(base, seed)
    what = case["what"]
    cwd = os.getcwd()
    with tempfile.TemporaryDirectory(prefix="c16f_") as td:
        os.chdir(td)
        try:
            if what.startswith("FORCE_SETS"):
                ds = copy.deepcopy(ph.dataset)
                if what.endswith("2"):
                    d, f = get_displacements_and_forces(ds)
                    ds = {"displacements": d + 0.001 * np.random.default_rng(1).normal(size=d.shape), "forces": f}
                IO.write_FORCE_SETS(ds, filename="FORCE_SETS")
                back = IO.parse_FORCE_SETS(natom=len(ph.supercell), filename="FORCE_SETS")
                if "first_atoms" in ds:
                    for x, y in zip(ds["first_atoms"], back["first_atoms"]):
                        if x["number"] != y["number"] or np.abs(np.asarray(x["displacement"]) - y["displacement"]).max() > 0.51e-16 + 1e-16 or np.abs(np.asarray(x["forces"]) - y["forces"]).max() > 0.51e-10 * max(1.0, 1.0) + 1e-15 * np.abs(x["forces"]).max():
                            return fail("values", "type-1 FORCE_SETS entries changed (dF=%.3g)" % np.abs(np.asarray(x["forces"]) - y["forces"]).max())
                else:
                    if np.abs(ds["displacements"] - back["displacements"]).max() > 0.51e-8 or np.abs(ds["forces"] - back["forces"]).max() > 0.51e-8 + 1e-15 * np.abs(ds["forces"]).max():
                        return fail("values", "type-2 FORCE_SETS entries changed (du=%.3g dF=%.3g)" % (np.abs(ds["displacements"] - back["displacements"]).max(), np.abs(ds["forces"] - back["forces"]).max()))
            elif what == "FORCE_CONSTANTS":
                for layout in ("full", "compact"):
                    p2s = np.asarray(ph.primitive.p2s_map)
                    fc = fcref if layout == "full" else fcref[p2s]
                    IO.write_FORCE_CONSTANTS(fc, filename="FORCE_CONSTANTS", p2s_map=p2s if layout == "compact" else None)
                    try:
                        back = IO.parse_FORCE_CONSTANTS(filename="FORCE_CONSTANTS", p2s_map=p2s if layout == "compact" else None)
                    except ValueError as e:
                        if "could not convert string to float" in str(e) and np.abs(fc).max() >= 1e4:
                            return dict(ok=False, sig="C16/file/FORCE_CONSTANTS/columns-merge-for-values-above-1e4", nontrivial=True,
                                        msg="%s scale=%g: write_FORCE_CONSTANTS uses '%%22.15f'*3 without separator; |fc|=%.3g merges columns and the file cannot be parsed" % (case["cell"], case["scale"], np.abs(fc).max()))
                        raise
                    if back.shape != fc.shape or np.abs(back - fc).max() > 0.51e-15 + 1e-15 * np.abs(fc).max():
                        return fail("values/" + layout, "FORCE_CONSTANTS round trip differs by %.3g (max %.3g)" % (np.abs(back - fc).max() if back.shape == fc.shape else -1, np.abs(fc).max()))
            elif what == "fc-hdf5":
                for layout, comp in itertools.product(("full", "compact"), (None, "gzip", "lzf")):
                    p2s = np.asarray(ph.primitive.p2s_map)
                    fc = fcref if layout == "full" else fcref[p2s]
                    IO.write_force_constants_to_hdf5(fc, filename="fc.hdf5", p2s_map=p2s, compression=comp)
                    back = IO.read_force_constants_hdf5(filename="fc.hdf5", p2s_map=p2s)
                    if back.shape != fc.shape or not np.array_equal(back, fc):
                        return fail("values/%s/%s" % (layout, comp), "hdf5 force constants round trip is not exact")
            elif what == "BORN":
                if ph.nac_params is None:
                    return dict(ok=True, skipped="no NAC parameters for this cell")
                # symmetry-consistent tensors (phonopy symmetrises on set): write the reduced representation, expand back
                from phonopy.structure.symmetry import symmetrize_borns_and_epsilon

                born, eps = symmetrize_borns_and_epsilon(ph.nac_params["born"], ph.nac_params["dielectric"], ph.primitive)
                lines = IO.get_BORN_lines(ph.unitcell, born, eps, factor=14.399652, primitive_matrix=ph.primitive_matrix, supercell_matrix=ph.supercell_matrix)
                with open("BORN", "w") as w:
                    w.write("\n".join(lines))
                back = IO.parse_BORN(ph.primitive, filename="BORN")
                # written with 8 decimals (error <= 0.5e-8 per number); tensors of symmetry-equivalent atoms are rotated copies R Z R^T
                # of a written one: the rounding errors combine with weights (|cos|+|sin|)^2 <= 2
                if np.abs(back["born"] - born).max() > 1.01e-8 or np.abs(back["dielectric"] - eps).max() > 1.01e-8 or abs(back.get("factor", 14.399652) - 14.399652) > 1e-6:
                    return fail("values", "BORN file parses back with max |dZ| = %.3g, |d eps| = %.3g" % (np.abs(back["born"] - born).max(), np.abs(back["dielectric"] - eps).max()))
            elif what == "type-conversion":
                ds = ph.dataset
                d, f = get_displacements_and_forces(ds)
                for i, x in enumerate(ds["first_atoms"]):
                    w = np.zeros_like(d[i])
                    w[x["number"]] = x["displacement"]
                    if np.abs(d[i] - w).max() > 0 or np.abs(f[i] - x["forces"]).max() > 0:
                        return fail("values", "type-1 -> type-2 conversion changes displacements or forces")
                from phonopy import Phonopy

                ph2 = phx.quiet(Phonopy, ph.unitcell, supercell_matrix=ph.supercell_matrix, primitive_matrix=ph.primitive_matrix)
                ph2.dataset = {"displacements": d, "forces": f}
                if np.abs(ph2.displacements - d).max() > 0 or np.abs(ph2.forces - f).max() > 0:
                    return fail("setter", "type-2 dataset setter changes values")
        except Exception as e:
            import traceback

            return fail("raised", "%s: %s" % (type(e).__name__, traceback.format_exc()[-300:]))
        finally:
            os.chdir(cwd)
    return dict(ok=True, nontrivial=True, transitions=2, outcome="ok:file:" + what)


def _freqs(ph, qs=((0.1, 0.2, 0.3), (0.5, 0.0, 0.0), (0.0, 0.0, 0.02))):
    ph.run_qpoints(np.array(qs, float))
    return np.array(ph.get_qpoints_dict()["frequencies"])


def run_history(case, seed):
    """Round trips whose outcome depends on HOW the state was reached or on which of several stored items wins."""
    import phonopy
    from phonopy import file_IO as IO
    from phonopy.interface.calculator import get_default_physical_units

    what = case["what"]

    def fail(kind, msg):
        return dict(ok=False, sig="C16/history/%s/%s" % (what, kind), nontrivial=True, msg="%s: %s" % ({k: v for k, v in case.items() if k != "kind"}, msg))

    cwd = os.getcwd()
    with tempfile.TemporaryDirectory(prefix="c16h_") as td:
        os.chdir(td)
        try:
            if what == "masses-through-setter":
                # masses assigned through Phonopy.masses (once, twice, after a copy) before saving
                ph, fcref = build(dict(DEFAULT, cell=case["cell"], S=case.get("S", "222"), fc="full", dataset="none", pm=case.get("pm", "none")), seed)
                m0 = np.array(ph.masses, float)
                seq = {1: [m0 * 1.33], 2: [m0 * 1.9, m0 * np.linspace(1.2, 1.7, len(m0))], 3: [m0 * 0.8, m0 * 1.1, m0 * np.linspace(2.0, 1.1, len(m0))]}[case["n"]]
                for m_ in seq:
                    ph.masses = m_
                want = _freqs(ph)
                out = ph.save("p.yaml", settings={"force_constants": True})
                ph2 = phx.quiet(phonopy.load, out, produce_fc=False, log_level=0)
                if np.abs(np.asarray(ph2.masses) - seq[-1]).max() > 5.1e-7:
                    return fail("masses", "masses set through the setter (%d assignments) reload as %s instead of %s" % (case["n"], np.asarray(ph2.masses).round(4).tolist(), np.round(seq[-1], 4).tolist()))
                for nm, cell in (("unitcell", ph2.unitcell), ("supercell", ph2.supercell)):
                    bad = _masses_by_geometry(ph2, cell)
                    if bad:
                        return fail("masses", "%s of the reloaded object: %s" % (nm, bad))
                e = np.abs(_freqs(ph2) - want).max() / max(np.abs(want).max(), 1e-9)
                if e > 1e-6:
                    return fail("phonons", "phonons of the reloaded object differ by %.3g (rel)" % e)
            elif what == "external-fc-hdf5":
                # force constants kept in force_constants.hdf5 (with its physical_unit attribute) next to a yaml without them
                calc = case["calc"]
                u = get_default_physical_units(calc)
                ph, fcref = build(dict(DEFAULT, cell=case["cell"], fc=case["layout"], dataset="none", calculator=calc), seed)
                want = _freqs(ph)
                ph.save("p.yaml", settings={"force_constants": False})
                p2s = np.asarray(ph.primitive.p2s_map)
                IO.write_force_constants_to_hdf5(ph.force_constants, filename="force_constants.hdf5", p2s_map=p2s, physical_unit=u["force_constants_unit"])
                for route, kw in (("force_constants_filename", {"force_constants_filename": "force_constants.hdf5"}), ("found-in-cwd", {})):
                    ph2 = phx.quiet(phonopy.load, "p.yaml", log_level=0, **kw)
                    if ph2.force_constants is None:
                        return fail("fc-not-read", "%s: force constants were not picked up" % route)
                    e = np.abs(_freqs(ph2) - want).max() / max(np.abs(want).max(), 1e-9)
                    if e > 1e-6:
                        return fail("phonons/%s" % calc, "calculator %s, %s: phonons differ by %.3g (rel) although the file states the calculator's own unit %s" % (calc, route, e, u["force_constants_unit"]))
            elif what == "stored-fc-win":
                # the file holds forces AND force constants that are not what the forces would give (cut off, edited, another solver):
                # loading with default options must keep the stored ones
                ph, fcref = build(dict(DEFAULT, cell=case["cell"], fc=case["layout"], dataset="type1"), seed)
                fc = np.array(ph.force_constants) * 1.07
                ph.force_constants = fc.copy()
                want = _freqs(ph)
                ph.save("p.yaml", settings={"force_constants": True, "force_sets": True})
                for route, kw in (("default", {}), ("produce_fc=False", {"produce_fc": False}), ("symmetrize_fc=False", {"symmetrize_fc": False})):
                    ph2 = phx.quiet(phonopy.load, "p.yaml", log_level=0, **kw)
                    got = ph2.force_constants
                    ref_ = fc
                    if got is not None and got.shape != fc.shape and fc.shape[0] == fc.shape[1]:
                        ref_ = fc[np.asarray(ph2.primitive.p2s_map)]  # load() may hand back the compact layout of the same numbers
                    if got is None or got.shape != ref_.shape or np.abs(got - ref_).max() > 1e-12 * np.abs(fc).max():
                        return fail("fc-overwritten", "load(%s): stored force constants were replaced (max change %.3g)" % (route, -1 if got is None or got.shape != ref_.shape else np.abs(got - ref_).max()))
                    e = np.abs(_freqs(ph2) - want).max() / max(np.abs(want).max(), 1e-9)
                    if e > 1e-6:
                        return fail("phonons", "load(%s): phonons differ by %.3g (rel) from the saved calculation" % (route, e))
            else:
                raise ValueError(what)
        finally:
            os.chdir(cwd)
    return dict(ok=True, nontrivial=True, transitions=3, outcome="ok:history:" + what)


def _masses_by_geometry(ph, cell):
    pr = ph.primitive
    Lp, pp = np.asarray(pr.cell), np.asarray(pr.positions)
    pos = np.asarray(cell.positions)
    for i in range(len(cell)):
        fr = (pos[i][None, :] - pp) @ np.linalg.inv(Lp)
        j = np.where(np.abs(fr - np.rint(fr)).max(axis=1) < 1e-5)[0]
        if len(j) != 1 or abs(cell.masses[i] - pr.masses[j[0]]) > 5.1e-7:
            return "atom %d has mass %r, its primitive atom %s" % (i, cell.masses[i], [pr.masses[k] for k in j])
    return None


def run_group(cases, seed):
    fn = {"saveload": run_saveload, "file": run_file, "history": run_history}
    return [fn[c["kind"]](c, seed) for c in cases]
