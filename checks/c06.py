"""C06 — force constants <-> dynamical matrices at commensurate points is lossless.

(a) point sets: for every integer matrix of the alphabets, the commensurate points are exactly |det| points,
distinct mod 1, with S^T q integral, and the integer representation describes the same set;
(b) round trip fc -> D(q_c) -> fc over (crystal, S, P) x range x layout x language x OpenMP flag, run twice on the
same object, and with caller-supplied commensurate points in other orders / representatives / memory layouts;
(c) Phonopy.ph2ph to multiples and non-multiples of the supercell, with and without NAC.
"""
from __future__ import annotations

import itertools

import numpy as np

from vtk import phx
from vtk.alphabet import crystals as X
from vtk.alphabet import qsets as Q
from vtk.alphabet import smat as SM
from vtk.ref import lattice as RL
from vtk.ref import springs as SP

ID = "C06"
VARIANT = "omp"
TECHNIQUE = "bounded-exhaustive product walk: all 3x3 matrices over {-1,0,1} for the point sets; (cell,S,P) x range x layout x path for the round trip and ph2ph; exact rational point-set oracle"
RULE = ("case = one matrix (point set) / one (crystal,S,P,range,layout,lang,openmp) round trip / one (crystal,S,S',nac) re-expression; "
        "non-trivial = |det| > 1 (point sets), supercell with an even multiplicity or non-diagonal S (round trip), S' != S (ph2ph)")
ASSUMPTIONS = ["vtk/ref/springs.py force constants are periodic and translationally invariant", "vtk/alphabet/qsets.commensurate (exact integer algebra)"]
BUDGET = {"quick": 900, "thorough": 3400}
TOL = 1e-10


def plan(tier, seed):
    from checks.c02 import prefixes

    groups = []
    mats = list(SM.SMALL()) + SM.D3(3) + SM.HNF(4) + SM.NONDIAG12 + [[[2, 1, 0], [0, 2, 0], [1, 0, 1]], [[3, 0, 0], [1, 1, 0], [0, 0, 1]], [[4, 0, 0], [0, 2, 0], [0, 0, 1]], [[2, 2, 0], [0, 2, 0], [0, 0, 5]], [[3, -2, 1], [1, 2, -1], [0, 1, 2]]]
    # all matrices over {0,1,2} with 0 < det <= 16 (1 900+): reductions with several divisibility steps
    mats += [m for m in SM.SMALL((0, 1, 2)) if 0 < RL.det3(m) <= 16]
    if tier == "thorough":
        mats += [m for m in SM.SMALL((-1, 0, 1, 2)) if RL.det3(m) > 0][::7]
    for k in range(0, len(mats), 500):
        groups.append([{"kind": "points", "S": m} for m in mats[k:k + 500]])
    opts = [dict(zip(("range", "layout", "path"), t)) for t in itertools.product(("nn", "long", "short"), ("full", "compact"), ("C/omp", "C/serial", "Py"))]
    npre = 0
    for pre in prefixes(tier, seed):
        npre += 1
        g = [dict(pre, kind="roundtrip", **o) for o in opts]
        groups.append(g)
    targets = 0
    for pre in prefixes(tier, seed):
        c = X.by_name()[pre["xtal"]]
        if pre["variant"] != "as-is":
            continue
        g = []
        S = np.array(pre["S"])
        for M, multiple in (([[2, 0, 0], [0, 1, 0], [0, 0, 1]], True), ([[1, 0, 0], [0, 1, 0], [0, 0, 2]], True), ([[1, 1, 0], [-1, 1, 0], [0, 0, 1]], True), (None, False)):
            if M is None:
                S2 = (np.eye(3, dtype=int) * 3 if abs(SM.det3(S.tolist())) == 1 else np.diag([3, 1, 1])).tolist()
            else:
                S2 = (S @ np.array(M)).tolist()
            if abs(SM.det3(S2)) * len(c["symbols"]) > (48 if tier == "quick" else 96):
                continue
            for nac in (None, "wang") if c.get("polar") and pre["xtal"] in ("NaCl-prim-2", "wurtzite-4", "tri-P1-3") else (None,):
                for layout in ("full", "compact"):
                    g.append(dict(pre, kind="ph2ph", S2=S2, multiple=multiple, nac=nac, layout=layout))
                    targets += 1
                    if nac is None and abs(SM.det3(S.tolist())) > 1 and not (np.array(S) == np.diag(np.diag(S))).all():
                        # objects built with the Smith-normal-form supercell construction (another atom order)
                        g.append(dict(pre, kind="ph2ph", S2=S2, multiple=multiple, nac=nac, layout=layout, snf=True))
                        targets += 1
                    if nac is None and layout == "full" and M is not None and M[0][0] == 2:
                        # history: the masses were changed through the setter before the transfer
                        g.append(dict(pre, kind="ph2ph", S2=S2, multiple=multiple, nac=nac, layout=layout, remass=True))
                        targets += 1
        if g:
            groups.append(g)
    meta = {"alphabet": {"matrices": len(mats), "roundtrip_prefixes": npre, "roundtrip_options": len(opts), "ph2ph_cases": targets},
            "bound": "complete product", "exhaustive": True, "not_covered": ["Gonze-Lee NAC inside ph2ph (C08 covers the GL construction)"]}
    return groups, meta


def run_points(case):
    from phonopy.harmonic.dynmat_to_fc import get_commensurate_points, get_commensurate_points_in_integers

    S = case["S"]
    d = RL.det3(S)
    nontriv = abs(d) > 1
    try:
        q = np.asarray(phx.quiet(get_commensurate_points, S), float)
    except Exception as e:
        if d > 0:
            return dict(ok=False, sig="C06/points/valid-matrix-raised", msg="S=%s det=%d: %s" % (S, d, type(e).__name__), nontrivial=nontriv)
        return dict(ok=True, outcome="det<=0:rejected", nontrivial=False)
    if d <= 0:
        if q.size == 0:
            return dict(ok=True, outcome="det<=0:rejected", nontrivial=False)
        if d == 0:
            return dict(ok=False, sig="C06/points/singular-accepted", msg="S=%s singular but %d points returned" % (S, len(q)))
    N = abs(d)
    if q.shape != (N, 3):
        return dict(ok=False, sig="C06/points/count", msg="S=%s det=%d: %s points" % (S, d, q.shape), nontrivial=nontriv)
    v = q @ np.array(S, float)  # (S^T q)^T = q^T S
    if np.abs(v - np.rint(v)).max() > 1e-9:
        return dict(ok=False, sig="C06/points/not-commensurate", msg="S=%s: S^T q not integral (max dev %.3g)" % (S, np.abs(v - np.rint(v)).max()), nontrivial=nontriv)
    keys = {tuple(np.rint((x - np.floor(x + 1e-12)) * N).astype(int) % N) for x in q}
    if len(keys) != N:
        return dict(ok=False, sig="C06/points/not-distinct", msg="S=%s: only %d distinct points mod 1" % (S, len(keys)), nontrivial=nontriv)
    ref = {tuple(np.rint(x * N).astype(int) % N) for x in Q.commensurate(S)}
    if keys != ref:
        return dict(ok=False, sig="C06/points/set-mismatch", msg="S=%s: point set differs from {q: S^T q in Z^3}" % S, nontrivial=nontriv)
    if d > 0:
        try:
            qi = np.asarray(get_commensurate_points_in_integers(S))
        except Exception as e:
            return dict(ok=False, sig="C06/points/integers-raised", msg="S=%s: %s" % (S, type(e).__name__), nontrivial=nontriv)
        ki = {tuple(int(z) % N for z in x) for x in qi}
        if len(qi) != N or ki != ref:
            return dict(ok=False, sig="C06/points/integer-representation", msg="S=%s: integer representation describes a different set" % S, nontrivial=nontriv)
    return dict(ok=True, outcome="ok:points", nontrivial=nontriv, transitions=2)


def _setup(case, seed, st, dense=True):
    key = "ph-snf" if case.get("snf") else "ph"
    if key not in st:
        c = phx.xtal(case["xtal"], case["variant"], seed)
        try:
            st[key] = phx.make_phonopy(c, case["S"], case["pm"], **({"use_SNF_supercell": True} if case.get("snf") else {}))
        except Exception as e:
            st[key] = e
    return st[key]


def run_roundtrip(case, seed, st):
    from phonopy.harmonic.dynmat_to_fc import DynmatToForceConstants

    ph = _setup(case, seed, st)
    if isinstance(ph, Exception):
        if case["pm"] == "auto":
            return dict(ok=True, skipped="auto primitive matrix guess raised")
        return dict(ok=False, sig="C06/constructor-raised", msg=str(ph)[:200])
    tag = "%s/%s/%s" % (case["range"], case["layout"], case["path"])
    if case["range"] not in st:
        st[case["range"]] = phx.supercell_fc(ph, phx.model_for(ph, case["range"], seed))
    ref = st[case["range"]]
    p2s = np.asarray(ph.primitive.p2s_map)
    want = ref if case["layout"] == "full" else ref[p2s]
    scale = max(np.abs(ref).max(), 1e-9)
    lang = "Py" if case["path"] == "Py" else "C"
    d2f = DynmatToForceConstants(ph.primitive, ph.supercell, is_full_fc=(case["layout"] == "full"), use_openmp=(case["path"] == "C/omp"))
    comm = np.array(d2f.commensurate_points)
    Lp, Ls = np.asarray(ph.primitive.cell), np.asarray(ph.supercell.cell)
    Sp = np.rint(Ls @ np.linalg.inv(Lp)).astype(int).T
    N = abs(RL.det3(Sp))
    ref_pts = {tuple(np.rint(x * N).astype(int) % N) for x in Q.commensurate(Sp)}
    got_pts = {tuple(np.rint(x * N).astype(int) % N) for x in comm}
    nontriv = bool(N > 1)
    if got_pts != ref_pts or len(comm) != N:
        return dict(ok=False, sig="C06/roundtrip/commensurate-points", msg="%s S=%s pm=%s: DynmatToForceConstants.commensurate_points is not the commensurate set" % (case["xtal"], case["S"], case["pm"]), nontrivial=nontriv)
    ph.force_constants = np.array(want, dtype="double", order="C")
    ph.run_qpoints(comm, with_dynamical_matrices=True)
    dms = ph.get_qpoints_dict()["dynamical_matrices"]
    try:
        d2f.dynamical_matrices = dms
        d2f.run(lang=lang)
        fc1 = np.array(d2f.force_constants)
        d2f.run(lang=lang)  # a second run on the same object must give the same answer
        fc2 = np.array(d2f.force_constants)
    except Exception as e:
        return dict(ok=False, sig="C06/roundtrip/raised/" + tag, msg="%s: %s" % (type(e).__name__, str(e)[:200]), nontrivial=nontriv)
    e1 = float(np.abs(fc1 - want).max() / scale) if fc1.shape == want.shape else np.inf
    if e1 > TOL:
        return dict(ok=False, sig="C06/roundtrip/lossy/" + tag, resid=e1, nontrivial=nontriv, transitions=2,
                    msg="%s %s S=%s pm=%s %s: fc -> D(q_c) -> fc differs by %.3g (rel)" % (case["xtal"], case["variant"], case["S"], case["pm"], tag, e1))
    # the caller may supply the commensurate points itself (constructor argument): any order, any representative modulo G
    if N > 1:
        g = np.random.default_rng(3 + seed)
        variants = {"reversed": comm[::-1].copy(), "rotated": np.roll(comm, 1, axis=0), "shuffled": comm[g.permutation(N)],
                    "other-representatives": comm + g.integers(-2, 3, size=comm.shape)}
        variants["fortran-ordered-arrays"] = comm.copy()
        for vn, pts in variants.items():
            ph.run_qpoints(pts, with_dynamical_matrices=True)
            dm_in = ph.get_qpoints_dict()["dynamical_matrices"]
            if vn == "fortran-ordered-arrays":
                dm_in, pts = np.asfortranarray(dm_in), np.asfortranarray(pts)
            try:
                d3 = DynmatToForceConstants(ph.primitive, ph.supercell, dynamical_matrices=dm_in, commensurate_points=pts,
                                            is_full_fc=(case["layout"] == "full"), use_openmp=(case["path"] == "C/omp"))
                d3.run(lang=lang)
                fc3 = np.array(d3.force_constants)
            except Exception as e:
                return dict(ok=False, sig="C06/roundtrip/raised/" + tag, msg="commensurate points %s: %s: %s" % (vn, type(e).__name__, str(e)[:200]), nontrivial=nontriv)
            e3 = float(np.abs(fc3 - want).max() / scale)
            if e3 > TOL:
                return dict(ok=False, sig="C06/roundtrip/point-order/" + tag, resid=e3, nontrivial=nontriv, transitions=4,
                            msg="%s S=%s pm=%s %s: with the commensurate points supplied %s the round trip differs by %.3g (rel)" % (case["xtal"], case["S"], case["pm"], tag, vn, e3))
    e2 = float(np.abs(fc2 - fc1).max() / scale)
    if e2 > TOL:
        return dict(ok=False, sig="C06/roundtrip/second-run-differs/" + tag, resid=e2, nontrivial=nontriv, transitions=3,
                    msg="%s S=%s %s: running the same object twice changes the result by %.3g" % (case["xtal"], case["S"], tag, e2))
    return dict(ok=True, resid=e1, nontrivial=nontriv, transitions=3, outcome="ok:roundtrip")


def run_ph2ph(case, seed, st):
    try:
        return _run_ph2ph(case, seed, st)
    finally:
        ph = _setup(case, seed, st)
        if case.get("remass") and not isinstance(ph, Exception) and "m_orig" in st:
            ph.masses = st["m_orig"]


def _run_ph2ph(case, seed, st):
    from vtk import scenarios as SC

    ph = _setup(case, seed, st)
    if isinstance(ph, Exception):
        return dict(ok=False, sig="C06/constructor-raised", msg=str(ph)[:200])
    tag = "%s/nac=%s/%s%s" % ("multiple" if case["multiple"] else "non-multiple", case["nac"], case["layout"], "/SNF-supercell" if case.get("snf") else "")
    kfc = "nn-snf" if case.get("snf") else "nn"  # the atom order of an SNF supercell differs: its own force-constant array
    if kfc not in st:
        st[kfc] = phx.supercell_fc(ph, phx.model_for(ph, "nn", seed))
    ref = st[kfc]
    p2s = np.asarray(ph.primitive.p2s_map)
    ph.force_constants = np.array(ref if case["layout"] == "full" else ref[p2s], dtype="double", order="C")
    ph.nac_params = SC.nac_params(case["xtal"], case["nac"]) if case["nac"] else None
    m_orig = st.setdefault("m_orig", np.array(ph.masses, float))
    if case.get("remass"):
        tag += "/masses-set-before"
        ph.masses = m_orig * np.linspace(1.3, 2.1, len(m_orig))
    try:
        ph2 = phx.quiet(ph.ph2ph, case["S2"], with_nac=bool(case["nac"]))
    except Exception as e:
        return dict(ok=False, sig="C06/ph2ph/raised/" + tag, msg="%s S=%s S2=%s: %s: %s" % (case["xtal"], case["S"], case["S2"], type(e).__name__, str(e)[:200]), nontrivial=True)
    Lp = np.asarray(ph.primitive.cell)
    def comm_of(p):
        Sp = np.rint(np.asarray(p.supercell.cell) @ np.linalg.inv(Lp)).astype(int).T
        N = abs(RL.det3(Sp))
        return Q.commensurate(Sp), N
    c1, N1 = comm_of(ph)
    c2, N2 = comm_of(ph2)
    # without NAC the transform is lossless at every point commensurate with the target; with (Wang) NAC the sampled
    # matrices are not periodic in q, so only the statement's claim is checked: points commensurate with the original
    qs = list(c2) if not case["nac"] else []
    if case["multiple"]:
        qs += list(c1)
    else:
        k2 = {tuple(np.rint(x * N2).astype(int) % N2) for x in c2}
        qs += [q for q in c1 if np.abs(q * N2 - np.rint(q * N2)).max() < 1e-9 and tuple(np.rint(q * N2).astype(int) % N2) in k2]
    qs = np.array(qs)
    ph.run_qpoints(qs, with_dynamical_matrices=True)
    D1 = ph.get_qpoints_dict()["dynamical_matrices"]
    ph2.run_qpoints(qs, with_dynamical_matrices=True)
    D2 = ph2.get_qpoints_dict()["dynamical_matrices"]
    scale = max(np.abs(D1).max(), 1e-12)
    e = float(np.abs(D1 - D2).max() / scale)
    if e > 1e-9:
        k = int(np.abs(D1 - D2).reshape(len(qs), -1).max(axis=1).argmax())
        return dict(ok=False, sig="C06/ph2ph/dynmat-changed/" + tag, resid=e, nontrivial=True, transitions=3,
                    msg="%s S=%s -> S2=%s %s: D(q) differs by %.3g (rel) at commensurate q=%s" % (case["xtal"], case["S"], case["S2"], tag, e, qs[k].round(5).tolist()))
    if ph2.force_constants.shape[0] == ph2.force_constants.shape[1] and ph.force_constants.shape[0] != ph.force_constants.shape[1] and len(ph2.primitive) != len(ph2.supercell):
        return dict(ok=False, sig="C06/ph2ph/layout", msg="compact input gave full output", nontrivial=True)
    return dict(ok=True, resid=e, nontrivial=True, transitions=3, outcome="ok:ph2ph:" + ("multiple" if case["multiple"] else "non-multiple"))


def run_group(cases, seed):
    st = {}
    out = []
    for c in cases:
        try:
            if c["kind"] == "points":
                out.append(run_points(c))
            elif c["kind"] == "roundtrip":
                out.append(run_roundtrip(c, seed, st))
            else:
                out.append(run_ph2ph(c, seed, st))
        except (np.linalg.LinAlgError, FloatingPointError, ZeroDivisionError, IndexError) as e:
            # a numerical failure on a valid input (e.g. eigensolver fed NaN because commensurate points are missing) is a lost round trip
            import traceback

            out.append(dict(ok=False, sig="C06/raised/%s" % c["kind"], nontrivial=True,
                            msg="%s: %s: %s ... %s" % ({k: v for k, v in c.items() if k != "kind"}, type(e).__name__, str(e)[:100], traceback.format_exc()[-300:])))
    return out
