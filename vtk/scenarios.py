"""Tiny workloads that reach every exported kernel THROUGH the public Python classes (so shapes, dtypes and
index maps are the ones the Python layer really builds).  Each scenario returns {name: ndarray}."""
from __future__ import annotations

import numpy as np

from vtk import phx

NAC = {"NaCl-prim-2": {"born": [np.eye(3) * 1.1, np.eye(3) * -1.1], "dielectric": np.eye(3) * 2.4, "factor": 14.4},
       "wurtzite-4": {"born": [np.diag([2.0, 2.0, 2.2])] * 2 + [np.diag([-2.0, -2.0, -2.2])] * 2,
                      "dielectric": np.diag([3.5, 3.5, 3.9]), "factor": 14.4},
       "tri-P1-3": {"born": [np.array([[1.2, .1, 0], [.1, 1.0, .05], [0, .05, 1.4]]), np.array([[-.7, 0, .1], [0, -.9, 0], [.1, 0, -.5]]),
                             np.array([[-.5, -.1, -.1], [-.1, -.1, -.05], [-.1, -.05, -.9]])],
                    "dielectric": np.array([[2.4, .2, .1], [.2, 3.0, .3], [.1, .3, 2.7]]), "factor": 14.4}}


def nac_params(xtal, method):
    d = NAC[xtal]
    return {"born": np.array(d["born"], dtype="double"), "dielectric": np.array(d["dielectric"], dtype="double"),
            "factor": d["factor"], "method": method}


def base(p, seed=0):
    c = phx.xtal(p.get("xtal", "NaCl-prim-2"))
    ph = phx.make_phonopy(c, p.get("S", [[2, 0, 0], [0, 1, 0], [0, 0, 1]]), p.get("pm", None),
                          store_dense_svecs=p.get("dense", True))
    fc = phx.supercell_fc(ph, phx.model_for(ph, "nn", seed))
    if p.get("compact"):
        fc = fc[np.asarray(ph.primitive.p2s_map)]
    ph.force_constants = np.array(fc, dtype="double", order="C")
    if p.get("nac"):
        ph.nac_params = nac_params(p.get("xtal", "NaCl-prim-2"), p["nac"])
    return ph


def qlist(n, seed=0):
    g = np.random.default_rng(5 + seed)
    q = g.uniform(-0.5, 0.5, (n, 3)).round(5)
    q[0] = 0
    if n > 2:
        q[2] = [0.5, 0, 0]
    return q


def s_fcprod(p, seed=0):
    """displacements -> forces -> fc (full/compact) -> symmetrisers -> cutoff"""
    from vtk.ref import springs as SP

    c = phx.xtal(p.get("xtal", "NaCl-prim-2"))
    ph = phx.make_phonopy(c, p.get("S", [[2, 0, 0], [0, 1, 0], [0, 0, 1]]), p.get("pm", None), store_dense_svecs=p.get("dense", True))
    ref = phx.supercell_fc(ph, phx.model_for(ph, "nn", seed))
    phx.quiet(ph.generate_displacements, distance=0.02)
    ph.forces = SP.forces_for_dataset(ref, ph.dataset)
    out = {}
    phx.quiet(ph.produce_force_constants, calculate_full_force_constants=not p.get("compact", False), show_drift=False)
    out["fc"] = np.array(ph.force_constants)
    ph.force_constants = out["fc"] + 1e-3 * np.random.default_rng(1).normal(size=out["fc"].shape)
    phx.quiet(ph.symmetrize_force_constants, level=2, show_drift=False)
    out["fc_sym"] = np.array(ph.force_constants)
    if not p.get("compact", False):
        phx.quiet(ph.symmetrize_force_constants_by_space_group, show_drift=False)
        out["fc_sg"] = np.array(ph.force_constants)
    import io, contextlib
    from phonopy.harmonic.force_constants import show_drift_force_constants
    with contextlib.redirect_stdout(io.StringIO()):
        show_drift_force_constants(ph.force_constants, primitive=ph.primitive)
    out["fc_after_drift_report"] = np.array(ph.force_constants)
    sv, mu = ph.primitive.get_smallest_vectors()
    out["svecs"] = np.array(sv)
    out["multi"] = np.array(mu)
    return out


def s_qpoints(p, seed=0):
    ph = base(p, seed)
    qs = qlist(p.get("nq", 5), seed)
    if p.get("qlayout") == "fortran":
        qs = np.asfortranarray(np.array(qs, dtype="double"))
    elif p.get("qlayout") == "strided":
        wide = np.zeros((len(qs), 7))
        wide[:, 1:4] = np.array(qs)
        qs = wide[:, 1:4]
    ph.run_qpoints(qs, with_eigenvectors=True, with_dynamical_matrices=True, with_group_velocities=p.get("gv", False),
                   nac_q_direction=p.get("qdir"))
    d = ph.get_qpoints_dict()
    out = {"frequencies": d["frequencies"], "dynmat": d["dynamical_matrices"]}
    if p.get("gv"):
        out["gv"] = d["group_velocities"]
    # single-q path of the dynamical-matrix object
    ph.dynamical_matrix.run(qs[-1])
    out["dm_single"] = np.array(ph.dynamical_matrix.dynamical_matrix)
    return out


def s_d2f(p, seed=0):
    from phonopy.harmonic.dynmat_to_fc import DynmatToForceConstants

    ph = base(p, seed)
    d2f = DynmatToForceConstants(ph.primitive, ph.supercell, is_full_fc=not p.get("compact", False), use_openmp=p.get("omp", True))
    comm = d2f.commensurate_points
    ph.run_qpoints(comm, with_dynamical_matrices=True)
    if p.get("ptslayout") == "fortran":
        # the caller supplies points and matrices itself, in Fortran order, through the constructor
        import warnings

        with warnings.catch_warnings():
            warnings.simplefilter("ignore")
            d2f = DynmatToForceConstants(ph.primitive, ph.supercell, dynamical_matrices=np.asfortranarray(ph.get_qpoints_dict()["dynamical_matrices"]),
                                         commensurate_points=np.asfortranarray(np.array(comm)[::-1]), is_full_fc=not p.get("compact", False), use_openmp=p.get("omp", True))
        ph.run_qpoints(np.array(comm)[::-1], with_dynamical_matrices=True)
        d2f.dynamical_matrices = np.asfortranarray(ph.get_qpoints_dict()["dynamical_matrices"])
    else:
        d2f.dynamical_matrices = ph.get_qpoints_dict()["dynamical_matrices"]
    d2f.run(lang="C")
    return {"fc_back": np.array(d2f.force_constants), "comm": np.array(comm)}


def s_gonze(p, seed=0):
    ph = base(dict(p, nac="gonze"), seed)
    dm = ph.dynamical_matrix
    dm.make_Gonze_nac_dataset()
    ds = dm.Gonze_nac_dataset
    out = {"gonze_fc": np.array(ds[0]), "dd_q0": np.array(ds[1]), "G_list": np.array(ds[3])}
    dm.run(np.array([0.1, 0.2, -0.05]))
    out["dm"] = np.array(dm.dynamical_matrix)
    dm.run(np.zeros(3), q_direction=np.array([1.0, 0, 0]))
    out["dm_gamma_dir"] = np.array(dm.dynamical_matrix)
    return out


def s_ddm(p, seed=0):
    from phonopy.harmonic.derivative_dynmat import DerivativeOfDynamicalMatrix

    ph = base(p, seed)
    ddm = DerivativeOfDynamicalMatrix(ph.dynamical_matrix)
    out = {}
    for k, q in enumerate(qlist(3, seed)[1:]):
        ddm.run(q, lang="C")
        out["ddm%d" % k] = np.array(ddm.d_dynamical_matrix)
    if p.get("nac"):
        ddm.run(np.zeros(3), q_direction=np.array([0.0, 1.0, 0.5]), lang="C")
        out["ddm_gamma"] = np.array(ddm.d_dynamical_matrix)
    return out


def s_thermal(p, seed=0):
    ph = base(p, seed)
    ph.run_mesh(p.get("mesh", [3, 2, 2]), is_mesh_symmetry=p.get("meshsym", True))
    ph.run_thermal_properties(t_min=0, t_max=600, t_step=150, cutoff_frequency=p.get("cutoff"))
    d = ph.get_thermal_properties_dict()
    return {"F": d["free_energy"], "S": d["entropy"], "Cv": d["heat_capacity"], "T": d["temperatures"]}


def s_dos(p, seed=0):
    ph = base(p, seed)
    ph.run_mesh(p.get("mesh", [3, 2, 2]), with_eigenvectors=True, is_mesh_symmetry=False)
    ph.run_total_dos(freq_pitch=p.get("pitch", 0.2))
    d = ph.get_total_dos_dict()
    out = {"tdos": d["total_dos"], "fp": d["frequency_points"]}
    ph.run_projected_dos(freq_pitch=p.get("pitch", 0.2), xyz_projection=p.get("xyz", False))
    out["pdos"] = ph.get_projected_dos_dict()["projected_dos"]
    ph.run_mesh(p.get("mesh", [3, 2, 2]), is_mesh_symmetry=True)
    ph.run_total_dos(freq_pitch=p.get("pitch", 0.2))
    out["tdos_sym"] = ph.get_total_dos_dict()["total_dos"]
    return out


def s_thm(p, seed=0):
    """tetrahedron kernels through TetrahedronMethod / TetrahedronMesh"""
    from phonopy.structure.tetrahedron_method import TetrahedronMethod, get_all_tetrahedra_relative_grid_address, get_tetrahedra_integration_weight

    c = phx.xtal(p.get("xtal", "tri-P1-3"))
    rec = np.linalg.inv(np.array(c["lattice"]))
    thm = TetrahedronMethod(rec, mesh=p.get("mesh", [3, 2, 2]), lang="C")
    out = {"rga": np.array(thm.get_tetrahedra())}
    out["all_rga"] = np.array(get_all_tetrahedra_relative_grid_address())
    g = np.random.default_rng(3 + seed)
    tf = g.uniform(0, 5, (6, 24, 4))
    tf[1] = np.round(tf[1])  # ties
    om = np.linspace(-0.5, 5.5, 7)
    out["iw_I"] = np.array([get_tetrahedra_integration_weight(om, t, function="I") for t in tf])
    out["iw_J"] = np.array([get_tetrahedra_integration_weight(om, t, function="J") for t in tf])
    out["iw_one"] = np.array([get_tetrahedra_integration_weight(2.2, t, function="I") for t in tf])
    return out


def s_thmesh(p, seed=0):
    from phonopy.phonon.tetrahedron_mesh import TetrahedronMesh

    ph = base(p, seed)
    ph.run_mesh(p.get("mesh", [3, 2, 2]), is_mesh_symmetry=p.get("meshsym", True))
    m = ph.mesh
    thm = TetrahedronMesh(ph.primitive, m.frequencies, m.mesh_numbers, np.array(m.grid_address, dtype="int64"),
                          np.array(m.grid_mapping_table, dtype="int64"), m.ir_grid_points)
    thm.set(value="I", frequency_points=np.linspace(0, 8, 5))
    out = []
    for iw in thm:
        out.append(np.array(iw))
    return {"iw": np.array(out)}


SCENARIOS = {"fcprod": s_fcprod, "qpoints": s_qpoints, "d2f": s_d2f, "gonze": s_gonze, "ddm": s_ddm, "thermal": s_thermal,
             "dos": s_dos, "thm": s_thm, "thmesh": s_thmesh}


def matrix(tier):
    """(scenario, params) pairs — the input families of C13."""
    S1 = [[2, 0, 0], [0, 1, 0], [0, 0, 1]]
    S2 = [[1, 1, 0], [-1, 1, 0], [0, 0, 1]]
    out = []
    for compact in (False, True):
        for dense in (True, False):
            out.append(("fcprod", {"xtal": "NaCl-prim-2", "S": S1, "compact": compact, "dense": dense}))
        out.append(("fcprod", {"xtal": "hcp-2", "S": S2, "compact": compact}))
        out.append(("fcprod", {"xtal": "tri-P1-3", "S": S1, "compact": compact}))
        out.append(("fcprod", {"xtal": "bcc-conv-2", "S": S1, "pm": "I", "compact": compact}))
        # several atoms per species in the primitive cell: symmetry maps displaced atoms onto one another
        out.append(("fcprod", {"xtal": "wurtzite-4", "S": [[2, 0, 0], [0, 2, 0], [0, 0, 1]], "compact": compact}))
        out.append(("fcprod", {"xtal": "rutile-6", "S": [[1, 0, 0], [0, 1, 0], [0, 0, 2]], "compact": compact}))
    for nac in (None, "wang", "gonze"):
        for nq in ((1, 2, 5, 17) if nac != "gonze" else (1, 5)):
            for compact in (False, True):
                out.append(("qpoints", {"xtal": "NaCl-prim-2", "S": S1, "nac": nac, "nq": nq, "compact": compact, "gv": nq == 5 and nac != "gonze"}))
        out.append(("qpoints", {"xtal": "tri-P1-3", "S": S1, "nac": nac, "nq": 3, "qdir": [1.0, 0.5, 0.0] if nac else None}))
        out.append(("qpoints", {"xtal": "wurtzite-4", "S": [[1, 0, 0], [0, 1, 0], [0, 0, 1]], "nac": nac, "nq": 3, "dense": False}))
    for compact in (False, True):
        for omp in (True, False):
            out.append(("d2f", {"xtal": "NaCl-prim-2", "S": S1, "compact": compact, "omp": omp}))
        out.append(("d2f", {"xtal": "hcp-2", "S": S2, "compact": compact}))
        out.append(("d2f", {"xtal": "hcp-2", "S": S2, "compact": compact, "ptslayout": "fortran"}))
        out.append(("qpoints", {"xtal": "hcp-2", "S": S2, "nac": None, "nq": 5, "compact": compact, "qlayout": "fortran" if compact else "strided", "gv": True}))
        out.append(("d2f", {"xtal": "tri-P1-3", "S": [[3, 0, 0], [0, 1, 0], [0, 0, 1]], "compact": compact}))
    out.append(("gonze", {"xtal": "NaCl-prim-2", "S": S1}))
    out.append(("gonze", {"xtal": "tri-P1-3", "S": S1, "compact": True}))
    for nac in (None, "wang"):
        out.append(("ddm", {"xtal": "NaCl-prim-2", "S": S1, "nac": nac}))
        out.append(("ddm", {"xtal": "tri-P1-3", "S": S1, "nac": nac, "compact": True}))
    for mesh in ([3, 2, 2], [2, 2, 2], [5, 3, 4], [1, 1, 1]):
        out.append(("thermal", {"xtal": "NaCl-prim-2", "S": S1, "mesh": mesh}))
    out.append(("thermal", {"xtal": "tri-P1-3", "S": S1, "mesh": [3, 2, 2], "meshsym": False, "cutoff": 1.0}))
    for mesh in ([3, 2, 2], [5, 3, 4], [3, 4, 2]):
        out.append(("dos", {"xtal": "NaCl-prim-2", "S": S1, "mesh": mesh}))
    out.append(("dos", {"xtal": "tri-P1-3", "S": S1, "mesh": [3, 2, 2], "xyz": True}))
    for xt in ("tri-P1-3", "hcp-2", "sc-1", "rhomb-prim-1"):
        out.append(("thm", {"xtal": xt, "mesh": [3, 2, 2]}))
    for mesh in ([3, 2, 2], [5, 3, 4]):
        out.append(("thmesh", {"xtal": "NaCl-prim-2", "S": S1, "mesh": mesh}))
        out.append(("thmesh", {"xtal": "NaCl-prim-2", "S": S1, "mesh": mesh, "meshsym": False}))
    if tier == "quick":
        return out
    # thorough: the same kernels on other shapes: more atoms, other supercell matrices, more q-points than threads and fewer,
    # odd/prime mesh numbers, every NAC variant with directions and group velocities
    S3 = [[2, 0, 0], [0, 2, 0], [0, 0, 1]]
    S4 = [[1, 0, 1], [0, 2, 0], [-1, 0, 1]]
    I3 = [[1, 0, 0], [0, 1, 0], [0, 0, 1]]
    for xt, S in (("wurtzite-4", S1), ("rutile-6", I3), ("NaCl-prim-2", S3), ("NaCl-prim-2", S4), ("mono-P21-2", S1), ("rhomb-prim-2", S2), ("CsCl-2", S3)):
        for compact in (False, True):
            for dense in (True, False):
                out.append(("fcprod", {"xtal": xt, "S": S, "compact": compact, "dense": dense}))
            out.append(("d2f", {"xtal": xt, "S": S, "compact": compact}))
    for xt, S in (("NaCl-prim-2", S3), ("NaCl-prim-2", S4), ("wurtzite-4", I3), ("tri-P1-3", S3), ("CsCl-2", S1)):
        for nac in (None, "wang", "gonze"):
            if nac and xt == "CsCl-2":
                continue
            for nq in ((1, 2, 3, 7, 16, 17, 33) if nac != "gonze" else (1, 3)):
                out.append(("qpoints", {"xtal": xt, "S": S, "nac": nac, "nq": nq, "compact": bool(nq % 2), "gv": nac != "gonze" and nq in (2, 7),
                                        "qdir": [0.0, 0.0, 1.0] if (nac and nq == 3) else None, "dense": nq != 7}))
    out.append(("gonze", {"xtal": "wurtzite-4", "S": I3}))
    out.append(("gonze", {"xtal": "NaCl-prim-2", "S": S3, "compact": True}))
    for nac in (None, "wang"):
        out.append(("ddm", {"xtal": "wurtzite-4", "S": I3, "nac": nac}))
        out.append(("ddm", {"xtal": "NaCl-prim-2", "S": S3, "nac": nac, "compact": True}))
    for mesh in ([7, 1, 1], [1, 1, 17], [4, 4, 4], [2, 3, 5], [6, 5, 1]):
        out.append(("thermal", {"xtal": "NaCl-prim-2", "S": S1, "mesh": mesh}))
        out.append(("thermal", {"xtal": "tri-P1-3", "S": S1, "mesh": mesh, "meshsym": False}))
        out.append(("dos", {"xtal": "NaCl-prim-2", "S": S1, "mesh": mesh}))
        out.append(("dos", {"xtal": "tri-P1-3", "S": S1, "mesh": mesh, "xyz": mesh[0] == 2}))
        out.append(("thmesh", {"xtal": "tri-P1-3", "S": S1, "mesh": mesh, "meshsym": False}))
        out.append(("thmesh", {"xtal": "hcp-2", "S": S2, "mesh": mesh}))
    for xt in ("bct-conv-2", "mono-C-conv-4", "NaCl-prim-2", "tri-P-1bar-2", "rhomb-prim-2"):
        for mesh in ([1, 4, 9], [5, 5, 5]):
            out.append(("thm", {"xtal": xt, "mesh": mesh}))
    return out
