"""C13 — compiled kernels: reference semantics, independence of the thread count, memory safety.

Schedule exploration on a controlled OpenMP runtime (vtomp): the kernels, compiled -O0 with ThreadSanitizer
instrumentation only, run with team threads as coroutines.  For every input family (built by the public
Python classes) and every team size the exact inter-thread dependency relation of every parallel region is
computed; an empty relation means all interleavings are equivalent to the one executed (whose output must be
bitwise equal to the single-thread run), a non-empty one is a data race (violation) and triggers bounded
pre-emption exploration at the dependent accesses.  The same hook stream feeds an exact bounds monitor and the
binding layer is checked by a call monitor; real libgomp / serial / ASan+UBSan builds validate the runtime model.
"""
from __future__ import annotations

import json
import os
import subprocess
import sys
import tempfile

import numpy as np

ID = "C13"
VARIANT = "vt"
VARIANTS_NEEDED = ["vt", "omp", "serial", "san"]
ENGINE = "vtomp"
TECHNIQUE = ("stateless schedule exploration of the OpenMP regions under a controlled scheduler (coroutine team, DPOR by exact "
             "dependency relation per region, bounded pre-emption at dependent accesses, regions serialised by an if-clause also run with the full team), exact access-bounds monitor, "
             "glue call monitor; model bound to real libgomp by output equality")
RULE = ("case = (part, scenario, parameters); vt cases are executed for every team size of the tier; non-trivial = at least one "
        "parallel region ran with >= 2 threads that each executed part of the iteration space (vt), or the case compares two "
        "implementations/builds (refsem, binding)")
ASSUMPTIONS = ["vtomp models libgomp for `parallel for` with static schedule (the only construct in /repo/c; build fails on others)",
               "instrumented accesses of -O0 code = all shared-memory accesses (locals that never escape are private by construction)",
               "race-freedom implies sequential consistency, so weak-memory effects are irrelevant for conflict-free regions",
               "gcc, CPython buffer protocol, the nanobind stand-in (same conversion rules as nanobind for the types in use)"]
BUDGET = {"quick": 1500, "thorough": 3400}

TEAMS = {"quick": [2, 3, 4, 7, 16], "thorough": list(range(2, 17))}


def plan(tier, seed):
    from vtk import refsem as RS
    from vtk import scenarios as SC

    groups = []
    for name, p in SC.matrix(tier):
        groups.append([{"part": "vt", "scenario": name, "params": p, "teams": TEAMS[tier]}])
    for name, p in RS.matrix(tier):
        groups.append([{"part": "refsem", "scenario": name, "params": p}])
    groups.append([{"part": "binding", "threads": [1, 2, 3, 5, 16], "tier": tier}])
    meta = {"alphabet": {"vt_input_families": len(SC.matrix(tier)), "team_sizes": TEAMS[tier], "refsem_cases": len(RS.matrix(tier)),
                         "binding_builds": ["omp x OMP_NUM_THREADS in 1,2,3,5,16", "serial", "san (ASan+UBSan)"]},
            "bound": "all team sizes of the tier x all input families; per region: full DPOR (empty dependency relation => 1 trace) or <=1 pre-emption at dependent accesses",
            "exhaustive": True,
            "not_covered": ["array shapes larger than the tiny families", "vectorised -O2 code is covered by value comparison only"]}
    return groups, meta


_H = None


def harness():
    global _H
    if _H is None:
        from vtk.vtharness import Harness

        _H = Harness("vt")
    return _H


def _same(a, b):
    if set(a) != set(b):
        return "output keys differ"
    for k in a:
        x, y = np.asarray(a[k]), np.asarray(b[k])
        if x.shape != y.shape:
            return "%s: shape %s vs %s" % (k, x.shape, y.shape)
        if x.tobytes() != y.tobytes():
            nan_equal = np.array_equal(x, y, equal_nan=True) if x.dtype.kind in "fc" else False
            if not nan_equal:
                d = np.abs(x.astype(complex) - y.astype(complex))
                return "%s differs (max |delta| = %.3g)" % (k, np.nanmax(d) if d.size else 0)
    return None


def run_vt(case, seed):
    from vtk import scenarios as SC

    H = harness()
    fn = SC.SCENARIOS[case["scenario"]]
    p = case["params"]
    tag = case["scenario"]
    H.glue_errors.clear()
    H.team(1)
    H.detect(0)
    H.reset()
    H.set_schedule([])
    ref = fn(p, seed)
    st1 = H.stats()
    trans = 1
    if H.glue_errors:
        k, a, m = H.glue_errors[0]
        return dict(ok=False, sig="C13/glue/%s/arg%d" % (k, a), msg="%s argument %d: %s" % (k, a, m), transitions=trans)
    if st1["oob"]:
        o = H.oobs()[0]
        return dict(ok=False, sig="C13/out-of-bounds/%s" % tag, transitions=trans,
                    msg="%s %s: %d accesses outside the arrays given to the kernel; first: %s of %d bytes at %s (%s)" % (
                        tag, p, st1["oob"], "write" if o["write"] else "read", o["size"], H.srcline(o["pc"]), o["kind"]))
    multi = 0
    accesses = 0
    schedules = 1
    passes = [(T, False) for T in case["teams"]]
    forced_runs = 0
    k_pass = 0
    while k_pass < len(passes):
        T, forced = passes[k_pass]
        k_pass += 1
        H.team(T)
        H.force_if(forced)
        H.detect(1)
        H.reset()
        raised = None
        try:
            out = fn(p, seed)
        except Exception as e:  # the 1-thread run of the same input went through: whatever happens now depends on the team
            raised = "%s: %s" % (type(e).__name__, str(e)[:150])
            out = None
        finally:
            H.force_if(False)
        st = H.stats()
        if raised and not st["conflicts"] and not st["oob"]:
            return dict(ok=False, sig="C13/thread-count-dependent/%s" % tag, transitions=trans + 1,
                        msg="%s %s: with %d threads the call raises (%s) although the 1-thread run succeeds" % (tag, p, T, raised))
        if not forced and st["if_serial"] and T in (2, 4, case["teams"][-1]):
            # some region was serialised by an `if(...)` clause (a size or option threshold): explore it with the full team too
            passes.append((T, True))
        if forced:
            forced_runs += 1
            tag = case["scenario"] + "/if-clause-overridden"
        trans += 1
        schedules += 1
        accesses += st["accesses"]
        if st["max_chunks"] >= 2:
            multi += 1
        if st["oob"]:
            o = H.oobs()[0]
            return dict(ok=False, sig="C13/out-of-bounds/%s" % tag, transitions=trans,
                        msg="%s T=%d: %d out-of-bounds accesses; first %s at %s (%s)" % (tag, T, st["oob"], "write" if o["write"] else "read", H.srcline(o["pc"]), o["kind"]))
        if st["conflicts"]:
            cs = H.conflicts()
            c0 = cs[0]
            where = "%s <-> %s" % (H.srcline(c0["pc"]), H.srcline(c0["other_pc"]))
            # bounded pre-emption exploration at the dependent accesses to make the race concrete
            try:
                differing, tried = explore_preemptions(H, fn, p, seed, T, ref)
            except Exception:
                differing, tried = -1, 0
            return dict(ok=False, sig="C13/data-race/%s" % tag, transitions=trans + tried,
                        msg="%s %s T=%d: %d conflicting access pairs between threads (data race), e.g. thread %d %s at %s; "
                            "%d of %d single-pre-emption schedules give a different output" % (
                                tag, p, T, st["conflicts"], c0["tid"], "write" if c0["write"] else "read", where, differing, tried),
                        count={"schedules": tried})
        bad = _same(out, ref) if out is not None else "the call raised: %s" % raised
        if bad:
            return dict(ok=False, sig="C13/thread-count-dependent/%s" % tag, transitions=trans,
                        msg="%s %s: output with %d threads differs from 1 thread: %s" % (tag, p, T, bad))
    H.team(1)
    H.detect(0)
    kern = sorted(H.calls)
    return dict(ok=True, transitions=trans, nontrivial=bool(multi > 0), outcome="ok:%s:%s" % (tag, "parallel" if multi else "no-parallel-work"),
                count={"instrumented_accesses": accesses, "team_runs_with_parallel_work": multi, "schedules": schedules, "runs_with_if_clause_overridden": forced_runs})


def explore_preemptions(H, fn, p, seed, T, ref, cap=120):
    """All schedules with one pre-emption placed at an access to a byte of the dependency relation (capped)."""
    H.team(T)
    H.detect(1)
    H.reset()
    H.lib.vt_set_log_points(0)
    fn(p, seed)  # fills the conflict address set
    H.lib.vt_set_log_points(1)
    H.detect(0)
    # keep conflict addresses: reset_stats clears them, so log in the same stats epoch
    fn(p, seed)
    pts = H.points()
    H.lib.vt_set_log_points(0)
    differing = 0
    tried = 0
    seen = set()
    for (reg, idx, tid, w) in pts:
        for to in range(T):
            if to == tid or (reg, idx, to) in seen:
                continue
            seen.add((reg, idx, to))
            if tried >= cap:
                break
            H.reset()
            H.set_schedule([(reg, idx, to)])
            try:
                out = fn(p, seed)
            except Exception:
                out = None
            tried += 1
            if out is None or _same(out, ref):
                differing += 1
        if tried >= cap:
            break
    H.set_schedule([])
    return differing, tried


def run_refsem(case, seed):
    from vtk import refsem as RS

    H = harness()
    H.team(1)
    H.detect(0)
    H.reset()
    H.glue_errors.clear()
    p = case["params"]
    w, desc = RS.REFSEM[case["scenario"]](p, seed)
    st = H.stats()
    if H.glue_errors:
        k, a, m = H.glue_errors[0]
        return dict(ok=False, sig="C13/glue/%s/arg%d" % (k, a), msg="%s argument %d: %s" % (k, a, m))
    if st["oob"]:
        o = H.oobs()[0]
        return dict(ok=False, sig="C13/out-of-bounds/%s" % case["scenario"],
                    msg="%s: %d out-of-bounds accesses; first at %s (%s)" % (case["scenario"], st["oob"], H.srcline(o["pc"]), o["kind"]))
    if not (w <= 1e-10):
        feat = ""
        if case["scenario"] == "thermal" and p.get("cutoff"):
            feat = "/cutoff-between-modes"
        return dict(ok=False, sig="C13/refsem/%s%s" % (case["scenario"], feat), resid=w,
                    msg="%s %s: compiled kernel differs from the reference implementation by %.3g (rel): %s" % (case["scenario"], p, w, desc))
    return dict(ok=True, resid=w, transitions=2, nontrivial=True, outcome="ok:refsem:" + case["scenario"])


WORKER = r'''
import sys, os, json, hashlib, warnings
warnings.simplefilter("ignore")
sys.path.insert(0, %(verif)r); sys.path.append(os.path.join(%(verif)r, "build", "deps"))
from vtk import build
build.load(%(variant)r)
import numpy as np
from vtk import scenarios as SC
out = {}
for i, (name, p) in enumerate(SC.matrix(%(tier)r)):
    r = SC.SCENARIOS[name](p, %(seed)d)
    for k, v in r.items():
        out["%%03d:%%s:%%s" %% (i, name, k)] = np.asarray(v)
np.savez(%(out)r, **out)
'''


def run_binding(case, seed):
    """Real runtimes: omp build with several OMP_NUM_THREADS, serial build, ASan/UBSan build; all scenario outputs."""
    verif = os.path.dirname(os.path.dirname(os.path.abspath(__file__)))
    work = tempfile.mkdtemp(prefix="c13_", dir=os.path.join(verif, "work") if os.path.isdir(os.path.join(verif, "work")) else None)
    jobs = [("omp", n) for n in case["threads"]] + [("serial", 1), ("san", 1), ("vt", 1)]
    procs = []
    asan = subprocess.run(["gcc", "-print-file-name=libasan.so"], capture_output=True, text=True).stdout.strip()
    ubsan = subprocess.run(["gcc", "-print-file-name=libubsan.so"], capture_output=True, text=True).stdout.strip()
    for variant, n in jobs:
        outp = os.path.join(work, "%s_%d.npz" % (variant, n))
        env = dict(os.environ, OMP_NUM_THREADS=str(n), PYTHONHASHSEED="0")
        if variant == "san":
            env["LD_PRELOAD"] = "%s %s" % (asan, ubsan)
            env["ASAN_OPTIONS"] = "detect_leaks=0:abort_on_error=0:exitcode=99"
            env["UBSAN_OPTIONS"] = "halt_on_error=1:exitcode=98"
        code = WORKER % dict(verif=verif, variant=variant, tier=case["tier"], seed=seed, out=outp)
        procs.append((variant, n, outp, subprocess.Popen([sys.executable, "-c", code], env=env, stdout=subprocess.PIPE, stderr=subprocess.PIPE, text=True)))
    res = {}
    for variant, n, outp, pr in procs:
        so, se = pr.communicate()
        if pr.returncode != 0:
            sanit = ("AddressSanitizer" in se or "runtime error" in se or pr.returncode in (98, 99))
            if variant == "san" and sanit:
                first = next((l for l in se.splitlines() if "ERROR" in l or "runtime error" in l), se[-300:])
                return dict(ok=False, sig="C13/sanitizer", msg="ASan/UBSan build reports: %s" % first[:300], transitions=len(jobs))
            if pr.returncode < 0:
                return dict(ok=False, sig="C13/crash/%s-build" % variant, transitions=len(jobs),
                            msg="%s build with OMP_NUM_THREADS=%d died with signal %d while running the kernel scenarios" % (variant, n, -pr.returncode))
            if (variant, n) == ("omp", 1):
                raise RuntimeError("binding worker %s/%d failed rc=%d: %s" % (variant, n, pr.returncode, se[-800:]))
            # the single-thread OpenMP build ran the same scenarios to the end (checked first): an exception here depends on
            # the thread count / the build
            last = [l for l in se.strip().splitlines() if l.strip()][-1:] or [""]
            return dict(ok=False, sig=("C13/libgomp-thread-count-dependent" if variant == "omp" else "C13/build-dependent/%s" % variant), transitions=len(jobs),
                        msg="%s build with OMP_NUM_THREADS=%d: a scenario raises (%s) although OMP_NUM_THREADS=1 runs through" % (variant, n, last[0][:200]))
        res[(variant, n)] = dict(np.load(outp))
    import shutil

    shutil.rmtree(work, ignore_errors=True)
    ref = res[("omp", 1)]
    for n in case["threads"][1:]:
        bad = _same(res[("omp", n)], ref)
        if bad:
            return dict(ok=False, sig="C13/libgomp-thread-count-dependent", transitions=len(jobs),
                        msg="real libgomp: OMP_NUM_THREADS=%d differs from 1: %s" % (n, bad))
    for other in (("serial", 1), ("san", 1), ("vt", 1)):
        for k in ref:
            a, b = np.asarray(res[other][k]), np.asarray(ref[k])
            if a.shape != b.shape:
                return dict(ok=False, sig="C13/build-dependent/%s" % other[0], msg="%s: shape differs in %s build" % (k, other[0]), transitions=len(jobs))
            if a.size and a.dtype.kind in "fc":
                if k.endswith(":frequencies"):
                    # frequencies are sign(e) sqrt|e|: compare at the eigenvalue level (well-conditioned near zero)
                    a, b = np.sign(a) * a * a, np.sign(b) * b * b
                s = max(np.abs(b).max(), 1e-12)
                if np.abs(a - b).max() / s > 1e-9:
                    return dict(ok=False, sig="C13/build-dependent/%s" % other[0], transitions=len(jobs),
                                msg="%s: %s build differs from the OpenMP build by %.3g (rel)" % (k, other[0], np.abs(a - b).max() / s))
            elif a.size and not np.array_equal(a, b):
                return dict(ok=False, sig="C13/build-dependent/%s" % other[0], msg="%s: integer output differs in %s build" % (k, other[0]), transitions=len(jobs))
    return dict(ok=True, transitions=len(jobs), nontrivial=True, outcome="ok:binding", count={"arrays_compared": len(ref) * (len(jobs) - 1)})


def run_group(cases, seed):
    out = []
    for case in cases:
        if case["part"] == "vt":
            out.append(run_vt(case, seed))
        elif case["part"] == "refsem":
            out.append(run_refsem(case, seed))
        else:
            out.append(run_binding(case, seed))
    return out
