"""Parse c/_phonopy.cpp: for every exported kernel, which ndarray argument is cast to which C type.

The table follows the code: it is re-parsed from the current /repo tree at every run.
"""
from __future__ import annotations

import os
import re

from vtk.build import REPO

ELEM = {
    "double": ("d", 8), "int64_t": ("lq", 8), "long": ("lq", 8), "int": ("i", 4), "char": ("bB?", 1),
}


def parse(path=None):
    src = open(path or os.path.join(REPO, "c", "_phonopy.cpp")).read()
    # exported name -> py function
    exports = dict((m.group(1), m.group(2)) for m in re.finditer(r'm\.def\(\s*"(\w+)",\s*&(\w+)\)', src))
    funcs = {}
    for m in re.finditer(r'\n(?:[\w:<>]+\s+)+?(py_\w+)\s*\(([^)]*)\)\s*\{', src):
        name, params = m.group(1), m.group(2)
        start = m.end()
        nxt = re.search(r'\n\}\s*;?\s*\n', src[start:])
        body = src[start:start + (nxt.start() if nxt else 0)]
        plist = []
        for p in params.split(","):
            p = " ".join(p.split())
            if not p:
                continue
            pname = p.split()[-1].lstrip("*&")
            plist.append((pname, "ndarray" if "ndarray" in p else p.rsplit(" ", 1)[0]))
        casts = {}
        for c in re.finditer(r'=\s*\(\s*([\w\s]+?)\s*(\(\s*\*\s*\)\s*((?:\[\s*\d+\s*\])+)|\*)\s*\)\s*(\w+)\s*\.\s*data\s*\(\s*\)', body):
            ctype = " ".join(c.group(1).split()).replace("const ", "")
            dims = tuple(int(x) for x in re.findall(r'\[\s*(\d+)\s*\]', c.group(3) or ""))
            casts[c.group(4)] = (ctype, dims)
        funcs[name] = {"params": plist, "casts": casts}
    table = {}
    for ename, fname in exports.items():
        if fname not in funcs:
            continue
        f = funcs[fname]
        args = []
        for i, (pname, ptype) in enumerate(f["params"]):
            if ptype == "ndarray":
                args.append((i, pname, f["casts"].get(pname)))
        table[ename] = args
    return table


def check_buffer(cast, fmt, itemsize, shape, strides, ndim):
    """Return None if a buffer with the given properties may be reinterpreted as `cast`, else a message."""
    ctype, dims = cast
    if ctype not in ELEM:
        return "unknown C type %s" % ctype
    codes, size = ELEM[ctype]
    f = (fmt or "").lstrip("@=<>!")
    shape = list(shape)
    strides = list(strides)
    # C-contiguity
    exp = itemsize
    for n, s in zip(reversed(shape), reversed(strides)):
        if n > 1 and s != exp:
            return "array is not C-contiguous (strides %s for shape %s)" % (strides, shape)
        exp *= n
    if f == "Zd":  # complex128 viewed as double[2]
        if ctype != "double":
            return "complex array cast to %s" % ctype
        eff_shape = shape + [2]
    else:
        if len(f) != 1 or f not in codes or itemsize != size:
            return "buffer format %r (itemsize %d) reinterpreted as %s" % (fmt, itemsize, ctype)
        eff_shape = shape
    # trailing dimensions of a T(*)[a][b] cast are not judged here: placeholder arrays (e.g. the unused dd_q0 of the
    # non-NAC path) legitimately have other shapes; an access beyond the buffer is caught by the exact bounds monitor.
    return None
