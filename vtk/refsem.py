"""Reference-semantics comparisons: compiled kernel vs the in-repository Python implementation
(lang='Py' / non-OpenMP Python iterator paths).  Each function returns (max relative deviation, description)."""
from __future__ import annotations

import numpy as np

from vtk import phx
from vtk import scenarios as SC


def _rel(a, b):
    a = np.asarray(a)
    b = np.asarray(b)
    if a.shape != b.shape:
        return np.inf
    s = max(np.abs(b).max() if b.size else 0.0, 1e-12)
    return float(np.abs(a - b).max() / s) if a.size else 0.0


def r_dynmat(p, seed=0):
    from phonopy.harmonic.dynamical_matrix import DynamicalMatrix

    ph = SC.base(dict(p, nac=None), seed)
    dm = DynamicalMatrix(ph.supercell, ph.primitive, np.array(ph.force_constants))
    As, Bs = [], []
    for q in SC.qlist(4, seed):
        dm.run(q, lang="C")
        As.append(np.array(dm.dynamical_matrix))
        dm.run(q, lang="Py")
        Bs.append(np.array(dm.dynamical_matrix))
    worst = _rel(np.array(As), np.array(Bs))  # one scale for the whole q-set (D vanishes at Gamma for 1-atom cells)
    return worst, "DynamicalMatrix.run lang=C vs lang=Py"


def r_d2f(p, seed=0):
    from phonopy.harmonic.dynmat_to_fc import DynmatToForceConstants

    ph = SC.base(p, seed)
    outs = []
    for lang in ("C", "Py"):
        d2f = DynmatToForceConstants(ph.primitive, ph.supercell, is_full_fc=not p.get("compact", False), use_openmp=True)
        ph.run_qpoints(d2f.commensurate_points, with_dynamical_matrices=True)
        d2f.dynamical_matrices = ph.get_qpoints_dict()["dynamical_matrices"]
        d2f.run(lang=lang)
        outs.append(np.array(d2f.force_constants))
    return _rel(outs[0], outs[1]), "DynmatToForceConstants.run lang=C vs lang=Py"


def r_ddm(p, seed=0):
    from phonopy.harmonic.derivative_dynmat import DerivativeOfDynamicalMatrix

    ph = SC.base(p, seed)
    ddm = DerivativeOfDynamicalMatrix(ph.dynamical_matrix)
    # the Python version only accepts the full layout: same physical constants, full array
    ddm_py = DerivativeOfDynamicalMatrix(SC.base(dict(p, compact=False), seed).dynamical_matrix)
    worst = 0.0
    qs = [(q, None) for q in SC.qlist(3, seed)[1:]]
    if p.get("nac"):
        qs.append((np.zeros(3), np.array([0.0, 1.0, 0.5])))
        qs.append((np.array([0.0, 0.0, 0.3]), None))
        qs.append((np.array([0.21, -0.33, 0.4]), None))
    for q, qd in qs:
        ddm.run(q, q_direction=qd, lang="C")
        a = np.array(ddm.d_dynamical_matrix)
        ddm_py.run(q, q_direction=qd, lang="Py")
        worst = max(worst, _rel(a, ddm_py.d_dynamical_matrix))
    return worst, "DerivativeOfDynamicalMatrix.run lang=C vs lang=Py"


def r_thermal(p, seed=0):
    from phonopy.phonon.thermal_properties import ThermalProperties

    ph = SC.base(p, seed)
    ph.run_mesh(p.get("mesh", [3, 2, 2]), is_mesh_symmetry=p.get("meshsym", True))
    outs = []
    for lang in ("C", "Py"):
        # a tiny cutoff keeps rounding-noise "frequencies" of the acoustic modes at Gamma (|f| ~ 1e-8 THz) out of the sums:
        # for them kT ln(1-exp(-x)) is ill-conditioned and libm/numpy differ by 1 ulp in exp
        cut = p.get("cutoff", 1e-4)
        if cut == "at-mode":  # a cutoff that coincides with a mode frequency: the mode is excluded ("> cutoff") in both languages
            cut = float(np.sort(ph.mesh.frequencies.ravel())[ph.mesh.frequencies.size // 3])
        tp = ThermalProperties(ph.mesh, cutoff_frequency=cut, classical=bool(p.get("classical", False)))
        tp.temperatures = np.array([0.0, 50.0, 300.0, 1000.0])
        tp.run(lang=lang)
        outs.append(np.array(tp.thermal_properties[1:]))
    return _rel(outs[0], outs[1]), "ThermalProperties.run lang=C vs lang=Py"


def r_thm(p, seed=0):
    from phonopy.structure.tetrahedron_method import TetrahedronMethod

    c = phx.xtal(p.get("xtal", "tri-P1-3"))
    rec = np.linalg.inv(np.array(c["lattice"]))
    worst = 0.0
    g = np.random.default_rng(3 + seed)
    om = np.linspace(-0.5, 5.5, 13)
    tms = {lang: TetrahedronMethod(rec, mesh=p.get("mesh", [3, 2, 2]), lang=lang) for lang in ("C", "Py")}
    # the two implementations may order tetrahedra/vertices differently: compare as sets of vertex sets
    def canon(t):
        return sorted(sorted(map(tuple, np.asarray(tt).tolist())) for tt in t)
    if canon(tms["C"].tetrahedra) != canon(tms["Py"].tetrahedra):
        worst = 1.0
    # consistent frequency fields: a value per relative grid address in {-1,0,1}^3
    for k in range(4):
        field = g.uniform(0, 5, (3, 3, 3))
        if k == 1:
            field = np.round(field)  # ties
        if k == 2:
            field[:] = 2.5  # flat band
        for val in ("I", "J"):
            res = {}
            for lang, tm in tms.items():
                rga = np.asarray(tm.tetrahedra)
                t = field[rga[..., 0] + 1, rga[..., 1] + 1, rga[..., 2] + 1]
                tm.set_tetrahedra_omegas(t)
                tm.run(om, value=val)
                res[lang] = np.array(tm.get_integration_weight())
            worst = max(worst, _rel(res["C"], res["Py"]) if np.abs(res["Py"]).max() > 0 else float(np.abs(res["C"]).max()))
    return worst, "TetrahedronMethod lang=C vs lang=Py (grid addresses and I/J weights)"


def r_thmesh(p, seed=0):
    """tetrahedra_frequencies C vs Py and tetrahedron_method_dos (OpenMP kernel) vs Python iterator"""
    from phonopy.phonon.dos import TotalDos, ProjectedDos
    from phonopy.phonon.tetrahedron_mesh import get_tetrahedra_frequencies
    from phonopy.structure.tetrahedron_method import TetrahedronMethod

    ph = SC.base(p, seed)
    worst = 0.0
    ph.run_mesh(p.get("mesh", [3, 2, 2]), is_mesh_symmetry=p.get("meshsym", True), with_eigenvectors=not p.get("meshsym", True))
    m = ph.mesh
    tm = TetrahedronMethod(np.linalg.inv(ph.primitive.cell), mesh=m.mesh_numbers)
    rga = tm.get_tetrahedra()
    gpidx = {gp: i for i, gp in enumerate(m.ir_grid_points)}
    gp_ir_index = np.array([gpidx[x] for x in m.grid_mapping_table], dtype="int64")
    mesh = np.array(m.mesh_numbers, dtype="int64")
    ga = np.array(m.grid_address, dtype="int64", order="C")
    for gp in list(m.ir_grid_points[:4]) + [m.ir_grid_points[-1]]:
        fC = get_tetrahedra_frequencies(int(gp), mesh, ga, rga, gp_ir_index, m.frequencies, lang="C")
        fP = get_tetrahedra_frequencies(int(gp), mesh, ga, rga, gp_ir_index, m.frequencies,
                                        grid_order=[1, mesh[0], mesh[0] * mesh[1]], lang="Py")
        worst = max(worst, _rel(fC, fP))
    res = []
    for omp in (True, False):
        td = TotalDos(m, use_tetrahedron_method=True)
        td._openmp_thm = omp
        td.set_draw_area(freq_pitch=0.3)
        td.run()
        res.append(np.array(td.dos))
    worst = max(worst, _rel(res[0], res[1]))
    if not p.get("meshsym", True):
        res = []
        for omp in (True, False):
            pd = ProjectedDos(m, use_tetrahedron_method=True)
            pd._openmp_thm = omp
            pd.set_draw_area(freq_pitch=0.3)
            pd.run()
            res.append(np.array(pd.projected_dos))
        worst = max(worst, _rel(res[0], res[1]))
    return worst, "tetrahedra_frequencies C vs Py; TotalDos/ProjectedDos OpenMP kernel vs Python iterator"


def r_perm(p, seed=0):
    """compute_permutation: C vs the in-repo Python fallback (ImportError branch)"""
    import sys
    import phonopy
    from phonopy.structure import cells as CL

    c = phx.xtal(p.get("xtal", "hcp-2"))
    ph = phx.make_phonopy(c, p.get("S", [[2, 0, 0], [0, 1, 0], [0, 0, 1]]), None)
    sc = ph.supercell
    ops = ph.symmetry.symmetry_operations
    pos = sc.scaled_positions
    lat = np.array(sc.cell.T, dtype="double", order="C")
    a = CL.compute_all_sg_permutations(pos, ops["rotations"], ops["translations"], lat, 1e-5)
    saved = sys.modules.get("phonopy._phonopy")
    attr = getattr(phonopy, "_phonopy", None)
    sys.modules["phonopy._phonopy"] = None
    if attr is not None:
        delattr(phonopy, "_phonopy")
    try:
        b = CL.compute_all_sg_permutations(pos, ops["rotations"], ops["translations"], lat, 1e-5)
    finally:
        sys.modules["phonopy._phonopy"] = saved
        if attr is not None:
            phonopy._phonopy = attr
    return (0.0 if (np.asarray(a) == np.asarray(b)).all() else 1.0), "compute_permutation C vs Python fallback"


def r_thmfam(p, seed=0):
    """relative grid addresses of the 24 tetrahedra: C vs Python over a family of lattices (diag x off-diagonals) x meshes"""
    import itertools

    from phonopy.structure.tetrahedron_method import TetrahedronMethod

    def canon(t):
        return sorted(sorted(map(tuple, np.asarray(tt).tolist())) for tt in t)

    bad = 0
    a = p["a"]
    for b, c_ in itertools.product((1.0, 1.3, 2.1), repeat=2):
        for d, e, f in itertools.product((-0.6, 0.0, 0.45), repeat=3):
            rec = np.linalg.inv(np.array([[a, 0, 0], [d, b, 0], [e, f, c_]]))
            for mesh in ([1, 1, 1], [3, 2, 2], [1, 4, 9]):
                if canon(TetrahedronMethod(rec, mesh=mesh, lang="C").tetrahedra) != canon(TetrahedronMethod(rec, mesh=mesh, lang="Py").tetrahedra):
                    bad += 1
    return float(bad), "tetrahedra relative grid addresses lang=C vs lang=Py over 243 lattices x 3 meshes (number of differing tables)"


def r_svecs(p, seed=0):
    """shortest vectors: dense kernel, sparse kernel and a brute-force minimum-image search (documented definition)"""
    from checks import c05

    worst = 0.0
    for storage in ("dense", "sparse"):
        r = c05.run_lattice({"lat": p["lat"], "storage": storage}, seed)
        if not r.get("ok"):
            worst = 1.0
    return worst, "get_smallest_vectors (dense and sparse kernels) vs brute-force minimum images: %s" % p["lat"]


def r_gonzedd(p, seed=0):
    """Reciprocal-space dipole-dipole term of the Gonze-Lee scheme (their Eq. 71): compiled kernel vs a numpy transcription
    sum_G  Z_i[a',a] Z_j[b',b] K_a' K_b' / (K.eps.K) exp(-K.eps.K / 4 Lambda^2) exp(2 pi i G.(r_i - r_j)),  K = G + q,
    minus the q -> 0 self term, times 4 pi / V * unit factor.  Born tensors are NOT symmetric matrices here."""
    c = phx.xtal(p.get("xtal", "tri-P1-3"))
    ph = phx.make_phonopy(c, p.get("S", [[2, 0, 0], [0, 1, 0], [0, 0, 1]]), None)
    ph.force_constants = phx.supercell_fc(ph, phx.model_for(ph, "nn", seed))
    g = np.random.default_rng(77 + seed)
    nat = len(ph.primitive)
    born = g.normal(size=(nat, 3, 3)) * 0.6 + np.array([np.eye(3) * (1.5 if i % 2 == 0 else -1.5) for i in range(nat)])
    born -= born.mean(axis=0)
    eps = np.eye(3) * 2.9 + 0.3 * g.normal(size=(3, 3))
    eps = (eps + eps.T) / 2
    ph.nac_params = {"born": born, "dielectric": eps, "factor": 14.399652, "method": "gonze", "G_cutoff": p.get("G_cutoff", 1.0)}
    dm = ph.dynamical_matrix
    dm.make_Gonze_nac_dataset()
    Z, E = np.array(dm._born), np.array(dm._dielectric)
    G, lam = np.array(dm._G_list), float(dm._Lambda)
    pos = np.array(ph.primitive.positions)
    fac = dm._unit_conversion * 4.0 * np.pi / ph.primitive.volume
    dq0 = np.array(dm._dd_q0)
    tol = dm.Q_DIRECTION_TOLERANCE
    worst = 0.0
    for q_red, qdir in (([0.11, 0.23, -0.31], None), ([0.5, 0.0, 0.0], None), ([0.0, 0.0, 0.0], [0.3, -0.2, 0.5]), ([0.0, 0.0, 0.0], None),
                        # close to, but not on, a reciprocal lattice point: |G+q| between the q->0 length tolerance and its square root
                        ([0.004, 0.0, 0.0], None), ([1.002, 0.0, -0.003], None), ([0.0, -0.0007, 0.0005], None), ([0.003, 0.002, -1.001], [1.0, 0.0, 0.0])):
        rec = np.linalg.inv(np.asarray(ph.primitive.cell))
        qc = rec @ np.array(q_red, float)
        dc = None if qdir is None else rec @ np.array(qdir, float)
        got = np.array(dm._get_c_recip_dipole_dipole(qc, dc))
        part = np.zeros((nat, 3, nat, 3), dtype=complex)
        for Gv in G:
            K = Gv + qc
            if np.linalg.norm(K) < tol:
                if dc is None:
                    continue
                KK = np.outer(dc, dc) / (dc @ E @ dc)
            else:
                KK = np.outer(K, K) / (K @ E @ K) * np.exp(-(K @ E @ K) / (4 * lam * lam))
            ph_ = np.exp(2j * np.pi * ((pos[:, None, :] - pos[None, :, :]) @ Gv))
            part += KK[None, :, None, :] * ph_[:, None, :, None]
        want = np.einsum("ima,jnb,imjn->iajb", Z, Z, part)
        for i in range(nat):
            want[i, :, i, :] -= dq0[i]
        want *= fac
        worst = max(worst, float(np.abs(got - want).max() / max(np.abs(want).max(), 1e-12)))
    return worst, "recip_dipole_dipole kernel vs numpy transcription of Gonze-Lee Eq. 71 (non-symmetric Born tensors)"


REFSEM = {"gonzedd": r_gonzedd, "thmfam": r_thmfam, "svecs": r_svecs, "dynmat": r_dynmat, "d2f": r_d2f, "ddm": r_ddm, "thermal": r_thermal, "thm": r_thm, "thmesh": r_thmesh, "perm": r_perm}


def matrix(tier):
    S1 = [[2, 0, 0], [0, 1, 0], [0, 0, 1]]
    S2 = [[1, 1, 0], [-1, 1, 0], [0, 0, 1]]
    out = []
    for xt, S in (("NaCl-prim-2", S1), ("tri-P1-3", S1), ("hcp-2", S2), ("bcc-conv-2", S1)):
        for compact in (False, True):
            out.append(("dynmat", {"xtal": xt, "S": S, "compact": compact, "pm": "I" if xt == "bcc-conv-2" else None}))
            out.append(("d2f", {"xtal": xt, "S": S, "compact": compact, "pm": "I" if xt == "bcc-conv-2" else None}))
    for xt in ("NaCl-prim-2", "tri-P1-3", "wurtzite-4"):
        for nac in (None, "wang"):
            for compact in (False, True):
                out.append(("ddm", {"xtal": xt, "S": S1 if xt != "wurtzite-4" else [[1, 0, 0], [0, 1, 0], [0, 0, 1]], "nac": nac, "compact": compact}))
    for mesh in ([3, 2, 2], [2, 2, 2], [5, 3, 4], [1, 1, 1]):
        out.append(("thermal", {"xtal": "NaCl-prim-2", "S": S1, "mesh": mesh}))
    out.append(("thermal", {"xtal": "tri-P1-3", "S": S1, "mesh": [3, 2, 2], "meshsym": False, "cutoff": 1.0}))
    out.append(("thermal", {"xtal": "tri-P1-3", "S": S1, "mesh": [3, 2, 2], "meshsym": False, "cutoff": "at-mode"}))
    out.append(("thermal", {"xtal": "NaCl-prim-2", "S": S1, "mesh": [3, 3, 3], "cutoff": "at-mode"}))
    out.append(("thermal", {"xtal": "NaCl-prim-2", "S": S1, "mesh": [3, 3, 3], "cutoff": 0.5, "classical": True}))
    out.append(("thermal", {"xtal": "tri-P1-3", "S": S1, "mesh": [3, 2, 2], "meshsym": False, "cutoff": 1.0, "classical": True}))
    for xt in ("tri-P1-3", "hcp-2", "sc-1", "rhomb-prim-1", "mono-P21-2", "bct-conv-2"):
        out.append(("thm", {"xtal": xt, "mesh": [3, 2, 2]}))
    for mesh in ([3, 2, 2], [5, 3, 4], [3, 4, 2], [2, 3, 5], [4, 4, 4]):
        for ms in (True, False):
            out.append(("thmesh", {"xtal": "NaCl-prim-2", "S": S1, "mesh": mesh, "meshsym": ms}))
    out.append(("thmesh", {"xtal": "tri-P1-3", "S": S1, "mesh": [2, 3, 4], "meshsym": False}))
    for xt, S in (("hcp-2", S1), ("NaCl-prim-2", S2), ("tri-P1-3", S1), ("rutile-6", [[1, 0, 0], [0, 1, 0], [0, 0, 1]])):
        out.append(("perm", {"xtal": xt, "S": S}))
    for a in (1.0, 1.3, 2.1):
        out.append(("thmfam", {"a": a}))
    out.append(("gonzedd", {"xtal": "tri-P1-3"}))
    out.append(("gonzedd", {"xtal": "wurtzite-4", "S": [[1, 0, 0], [0, 1, 0], [0, 0, 1]]}))
    if tier != "quick":
        S3 = [[2, 0, 0], [0, 2, 0], [0, 0, 1]]
        S4 = [[1, 0, 1], [0, 2, 0], [-1, 0, 1]]
        I3 = [[1, 0, 0], [0, 1, 0], [0, 0, 1]]
        for xt, S in (("wurtzite-4", S1), ("rutile-6", I3), ("NaCl-prim-2", S3), ("NaCl-prim-2", S4), ("mono-P21-2", S1), ("rhomb-prim-2", S2), ("CsCl-2", S3),
                      ("trig-P3-4", I3), ("mono-Pc-2", S3), ("tri-P-1bar-2", S4)):
            for compact in (False, True):
                out.append(("dynmat", {"xtal": xt, "S": S, "compact": compact}))
                out.append(("d2f", {"xtal": xt, "S": S, "compact": compact}))
                out.append(("ddm", {"xtal": xt, "S": S, "nac": None, "compact": compact}))
            out.append(("perm", {"xtal": xt, "S": S}))
        for mesh in ([7, 1, 1], [1, 1, 17], [4, 4, 4], [2, 3, 5], [6, 5, 1]):
            out.append(("thermal", {"xtal": "tri-P1-3", "S": S1, "mesh": mesh, "meshsym": False, "cutoff": 1.0}))
            out.append(("thmesh", {"xtal": "tri-P1-3", "S": S1, "mesh": mesh, "meshsym": False}))
            out.append(("thmesh", {"xtal": "hcp-2", "S": S2, "mesh": mesh, "meshsym": True}))
            for xt in ("bct-conv-2", "mono-C-conv-4", "tri-P-1bar-2", "rhomb-prim-2"):
                out.append(("thm", {"xtal": xt, "mesh": mesh}))
    from checks import c05

    lats = list(c05.lattices("quick"))
    for lat in lats[:: max(1, len(lats) // (40 if tier == "quick" else 400))]:
        out.append(("svecs", {"lat": lat}))
    return out
