"""Synthetic calculator outputs carrying a known set of forces, written by this harness in the layout of the real
output files shipped in /repo/example (one writer per calculator, independent of phonopy's parsers).

WRITERS[calc](path, blocks, symbols, order) -> filename to hand to parse_set_of_forces
  blocks : list of (N,3) arrays; a relaxation history, the LAST block is the result the calculator reports
  order  : permutation of range(N) = the order in which the per-atom lines appear (only formats whose lines carry the atom
           id allow anything but the identity)
EXPECT[calc] : factor such that phonopy's documented force for that interface = factor * number in the file
"""
from __future__ import annotations

import os

import numpy as np

HARTREE = 27.211386245988
BOHR = 0.529177210903


def _abinit(path, blocks, symbols, order):
    with open(path, "w") as f:
        f.write(" == DATASET 1 ==\n\n")
        for b in blocks[:-1]:
            f.write(" cartesian forces (hartree/bohr) at end:\n")
            for i, v in enumerate(b):
                f.write("%5d   %19.14f %19.14f %19.14f\n" % (i + 1, *(v / 51.42208619083232)))
        b = blocks[-1]
        f.write(" cartesian forces (hartree/bohr) at end:\n")
        for i, v in enumerate(b):
            f.write("%5d   %19.14f %19.14f %19.14f\n" % (i + 1, *(v / 51.42208619083232)))
        f.write(" frms,max,avg= 1.0e-3 2.0e-3 0.0 0.0 0.0 h/b\n\n")
        f.write(" cartesian forces (eV/Angstrom) at end:\n")
        for i, v in enumerate(b):
            f.write("%5d   %19.14f %19.14f %19.14f\n" % (i + 1, *v))
        f.write(" frms,max,avg= 1.0e-3 2.0e-3 0.0 0.0 0.0 e/A\n")
    return path


def _qe(path, blocks, symbols, order):
    sp = sorted(set(symbols), key=symbols.index)
    with open(path, "w") as f:
        f.write("     Program PWSCF v.6.4 starts\n\n")
        for b in blocks:
            f.write("!    total energy              =   -1000.00000000 Ry\n\n")
            f.write("     Forces acting on atoms (cartesian axes, Ry/au):\n\n")
            for i, v in enumerate(b):
                f.write("     atom %4d type %2d   force = %14.8f%14.8f%14.8f\n" % (i + 1, sp.index(symbols[i]) + 1, *v))
            f.write("\n     Total force =     0.001000     Total SCF correction =     0.000001\n\n")
    return path


def _elk(path, blocks, symbols, order):
    sp = sorted(set(symbols), key=symbols.index)
    with open(path, "w") as f:
        for b in blocks:
            f.write("\nForces :\n")
            for s in sp:
                f.write(" species : %4d (%s)\n" % (sp.index(s) + 1, s))
                k = 0
                for i, v in enumerate(b):
                    if symbols[i] != s:
                        continue
                    k += 1
                    f.write("  atom : %4d\n" % k)
                    f.write("   Hellmann-Feynman          : %14.8f%14.8f%14.8f\n" % tuple(0.3 * v))
                    f.write("   IBS                       : %14.8f%14.8f%14.8f\n" % tuple(0.7 * v))
                    f.write("   total force               : %14.8f%14.8f%14.8f\n" % tuple(v))
                    f.write("   total magnitude           : %14.8f\n" % np.linalg.norm(v))
            f.write("\n Atomic force RMS : 0.001\n")
    return path


def _siesta(path, blocks, symbols, order):
    b = blocks[-1]  # the .FA file holds the final forces only
    with open(path, "w") as f:
        f.write("%6d\n" % len(b))
        for i, v in enumerate(b):
            f.write("%6d %23.12f %23.12f %23.12f\n" % (i + 1, *v))
    return path


def _cp2k(path, blocks, symbols, order):
    sp = sorted(set(symbols), key=symbols.index)
    with open(path, "w") as f:
        for b in blocks:
            f.write(" ATOMIC FORCES in [a.u.]\n\n # Atom   Kind   Element          X              Y              Z\n")
            for i, v in enumerate(b):
                f.write(" %6d %6d %7s   %14.8f %14.8f %14.8f\n" % (i + 1, sp.index(symbols[i]) + 1, symbols[i], *v))
            f.write(" SUM OF ATOMIC FORCES          0.0 0.0 0.0 0.0\n")
    return path


def _crystal(path, blocks, symbols, order):
    with open(path, "w") as f:
        for b in blocks:
            f.write(" CARTESIAN FORCES IN HARTREE/BOHR (ANALYTICAL)\n   ATOM                     X                   Y                   Z\n")
            for i, v in enumerate(b):
                f.write(" %3d %3d            %19.12E %19.12E %19.12E\n" % (i + 1, 11, *v))
            f.write("\n RESULTANT FORCE  0.0 0.0 0.0\n")
    return path


def _dftbp(path, blocks, symbols, order):
    b = blocks[-1]
    with open(path, "w") as f:
        f.write("mermin_energy       :real:0:\n -0.1E+02\n")
        f.write("forces              :real:2:3,%d\n" % len(b))
        for v in b:
            f.write(" %23.15E %23.15E %23.15E\n" % tuple(v))
        f.write("end_of_file :logical:0:\n T\n")
    return path


def _turbomole(path, blocks, symbols, order):
    b = blocks[-1]  # phonopy documents a single-point gradient file
    os.makedirs(path, exist_ok=True)
    with open(os.path.join(path, "gradient"), "w") as f:
        f.write("$grad          cartesian gradients\n  cycle =      1    SCF energy =   -62488.0815781100   |dE/dxyz| =  0.003274\n")
        for i in range(len(b)):
            f.write("%22.14f%22.14f%22.14f      %s\n" % (1.5 * i, 0.25 * i, 0.0, symbols[i].lower()))
        for v in b:
            f.write("".join(("%22.14E" % x).replace("E", "D") for x in v) + "\n")
        f.write("$end\n")
    return path


def _castep(path, blocks, symbols, order):
    with open(path, "w") as f:
        for b in blocks:
            f.write(" ************************** Forces **************************\n *                                                          *\n")
            f.write(" *               Cartesian components (eV/A)                *\n * -------------------------------------------------------- *\n")
            f.write(" *                         x            y            z      *\n *                                                          *\n")
            cnt = {}
            for i, v in enumerate(b):
                cnt[symbols[i]] = cnt.get(symbols[i], 0) + 1
                f.write(" * %-3s %12d %12.5f %12.5f %12.5f *\n" % (symbols[i], cnt[symbols[i]], *v))
            f.write(" *                                                          *\n ************************************************************\n")
    return path


def _aims(path, blocks, symbols, order):
    n = len(blocks[-1])
    with open(path, "w") as f:
        f.write("  | Number of atoms                   : %8d\n" % n)
        f.write("  | Unit cell:\n")
        for r in np.eye(3) * 9.0:
            f.write("  | %17.8f %17.8f %17.8f\n" % tuple(r))
        f.write("  | Atomic structure:\n  |       Atom                x [A]            y [A]            z [A]\n")
        for i in range(n):
            f.write("  | %4d: Species %-4s %16.8f %16.8f %16.8f\n" % (i + 1, symbols[i], 0.7 * i, 0.1 * i, 0.0))
        for b in blocks:
            f.write("  Total atomic forces (unitary forces cleaned) [eV/Ang]:\n")
            for i, v in enumerate(b):
                f.write("  | %4d %30.15E %30.15E %30.15E\n" % (i + 1, *v))
            f.write("\n")
    return path


def _fleur(path, blocks, symbols, order):
    b = blocks[-1]
    with open(path, "w") as f:
        f.write("1\n1 #\n")
        for v in b:
            f.write(" %25.16E %25.16E %25.16E force\n" % tuple(v))
    return path


def _abacus(path, blocks, symbols, order):
    n = len(blocks[-1])
    with open(path, "w") as f:
        f.write("                        TOTAL ATOM NUMBER = %d\n" % n)
        for b in blocks:
            f.write("\nTOTAL-FORCE (eV/Angstrom)\n" + "-" * 90 + "\n")
            cnt = {}
            for i, v in enumerate(b):
                cnt[symbols[i]] = cnt.get(symbols[i], 0) + 1
                f.write("%-20s %20.10f %20.10f %20.10f\n" % ("%s%d" % (symbols[i], cnt[symbols[i]]), *v))
            f.write("-" * 90 + "\n")
    return path


def _pwmat(path, blocks, symbols, order):
    b = blocks[-1]
    with open(path, "w") as f:
        f.write(" ****** force (eV/A) ******************\n")
        for i, v in enumerate(b):
            f.write(" %3d  %18.10E %18.10E %18.10E\n" % (11, *v))
    return path


def _lammps(path, blocks, symbols, order):
    b = blocks[-1]
    sp = sorted(set(symbols), key=symbols.index)
    with open(path, "w") as f:
        f.write("ITEM: TIMESTEP\n0\nITEM: NUMBER OF ATOMS\n%d\n" % len(b))
        f.write("ITEM: BOX BOUNDS xy xz yz pp pp pp\n0.0 9.0 0.0\n0.0 9.0 0.0\n0.0 9.0 0.0\n")
        f.write("ITEM: ATOMS id type x y z fx fy fz\n")
        for i in order:  # a dump is written in whatever order the processors hold the atoms unless `dump_modify sort id`
            f.write("%d %d %15.8f %15.8f %15.8f %15.8f %15.8f %15.8f\n" % (i + 1, sp.index(symbols[i]) + 1, 0.7 * i, 0.1 * i, 0.0, *b[i]))
    return path


WRITERS = {"abinit": _abinit, "qe": _qe, "elk": _elk, "siesta": _siesta, "cp2k": _cp2k, "crystal": _crystal, "dftbp": _dftbp,
           "turbomole": _turbomole, "castep": _castep, "aims": _aims, "fleur": _fleur, "abacus": _abacus, "pwmat": _pwmat, "lammps": _lammps}
# which formats keep a history of which only the last entry counts
# (phonopy documents "the last set of forces in the file" for these; the others are single-point outputs with one block)
HISTORY = {"qe", "cp2k", "crystal", "aims", "abacus"}
# formats whose lines carry the atom id (any line order is a legal file)
ANY_ORDER = {"lammps"}
# phonopy's force for the interface = EXPECT * number in the file (CRYSTAL: coordinates in Angstrom, so the interface converts
# hartree/bohr to eV/Angstrom; TURBOMOLE's file holds gradients; PWmat's OUT.FORCE lists -F)
EXPECT = {c: 1.0 for c in WRITERS}
EXPECT["crystal"] = HARTREE / BOHR
EXPECT["turbomole"] = -1.0
EXPECT["pwmat"] = -1.0
# species-grouped formats: the calculator lists atoms species by species (elk), so the harness feeds already grouped cells
GROUPED = {"elk"}
# digits the layout prints after the point (absolute resolution of the file)
RESOLUTION = {"qe": 1e-8, "elk": 1e-8, "cp2k": 1e-8, "castep": 1e-5, "abacus": 1e-10, "lammps": 1e-8, "siesta": 1e-12, "abinit": 1e-14}
# significant digits of the exponent layouts (relative resolution)
REL_RESOLUTION = {"pwmat": 1e-10, "crystal": 1e-12, "turbomole": 1e-14, "dftbp": 1e-15, "aims": 1e-15, "fleur": 1e-16}
