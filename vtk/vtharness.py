"""Harness around the compiled kernels: call monitor (glue check + bounds regions) and vtomp control."""
from __future__ import annotations

import ctypes
import os

import numpy as np

from vtk import build, glue


class PyBuffer(ctypes.Structure):
    _fields_ = [("buf", ctypes.c_void_p), ("obj", ctypes.c_void_p), ("len", ctypes.c_ssize_t), ("itemsize", ctypes.c_ssize_t),
                ("readonly", ctypes.c_int), ("ndim", ctypes.c_int), ("format", ctypes.c_char_p),
                ("shape", ctypes.POINTER(ctypes.c_ssize_t)), ("strides", ctypes.POINTER(ctypes.c_ssize_t)),
                ("suboffsets", ctypes.POINTER(ctypes.c_ssize_t)), ("internal", ctypes.c_void_p)]


MONFN = ctypes.CFUNCTYPE(None, ctypes.c_char_p, ctypes.c_int, ctypes.POINTER(PyBuffer))

# kernels that only read the given argument (bounds monitor flags writes into them).  Derived from `const`
# qualifiers in c/phonopy.h would be better; kept conservative: everything writable except where listed.
READONLY_ARGS = {}


class Harness:
    def __init__(self, variant):
        self.variant = variant
        self.phonoc = build.load(variant)
        self.lib = ctypes.CDLL(self.phonoc.__file__)
        self.table = glue.parse()
        self.calls = {}       # kernel -> number of calls
        self.glue_errors = []  # (kernel, argi, message)
        self.shapes = {}      # kernel -> set of shape signatures seen
        self.is_vt = variant == "vt"
        if self.is_vt:
            L = self.lib
            for f in ("vt_conflicts", "vt_regions", "vt_regions_multi", "vt_total_access", "vt_oob", "vt_switches", "vt_max_chunks"):
                getattr(L, f).restype = ctypes.c_long
            L.vt_add_region.argtypes = [ctypes.c_void_p, ctypes.c_long, ctypes.c_int]
        self._cb = MONFN(self._monitor)
        self.lib.nbshim_set_monitor(self._cb)

    def close(self):
        self.lib.nbshim_set_monitor(MONFN())

    def _monitor(self, fname, argi, view):
        name = fname.decode()
        if argi == -1:
            self.calls[name] = self.calls.get(name, 0) + 1
            self._cur = []
            if self.is_vt:
                self.lib.vt_bounds_begin()
            return
        if argi == -2:
            if self.is_vt:
                self.lib.vt_bounds_end()
            self.shapes.setdefault(name, set()).add(tuple(self._cur))
            return
        v = view.contents
        shape = [v.shape[i] for i in range(v.ndim)]
        strides = [v.strides[i] for i in range(v.ndim)] if v.strides else []
        fmt = v.format.decode() if v.format else ""
        self._cur.append((argi, fmt, tuple(shape)))
        if self.is_vt:
            self.lib.vt_add_region(v.buf, v.len, 0 if v.readonly else 1)
        exp = dict((a, c) for a, _, c in self.table.get(name, []))
        cast = exp.get(argi)
        if cast is not None:
            msg = glue.check_buffer(cast, fmt, v.itemsize, shape, strides, v.ndim)
            if msg:
                self.glue_errors.append((name, argi, msg))

    # ---- vtomp control ----
    def team(self, t):
        self.lib.vt_set_team(int(t))

    def force_if(self, on):
        """run regions whose `if` clause is false with the full team anyway"""
        self.lib.vt_set_force_if(1 if on else 0)

    def detect(self, on):
        self.lib.vt_set_detect(1 if on else 0)

    def reset(self):
        self.lib.vt_reset_stats()

    def stats(self):
        L = self.lib
        return {"regions": L.vt_regions(), "regions_multi": L.vt_regions_multi(), "accesses": L.vt_total_access(),
                "conflicts": L.vt_conflicts(), "oob": L.vt_oob(), "switches": L.vt_switches(), "max_chunks": L.vt_max_chunks(), "if_serial": L.vt_if_serial()}

    def conflicts(self):
        out = []
        a = ctypes.c_size_t(); pc = ctypes.c_void_p(); opc = ctypes.c_void_p(); tid = ctypes.c_int(); w = ctypes.c_int()
        reg = ctypes.c_long(); idx = ctypes.c_long()
        i = 0
        while self.lib.vt_get_conf(i, ctypes.byref(a), ctypes.byref(pc), ctypes.byref(opc), ctypes.byref(tid), ctypes.byref(w),
                                   ctypes.byref(reg), ctypes.byref(idx)):
            out.append({"addr": a.value, "pc": pc.value, "other_pc": opc.value, "tid": tid.value, "write": w.value,
                        "region": reg.value, "idx": idx.value})
            i += 1
        return out

    def oobs(self):
        out = []
        a = ctypes.c_size_t(); pc = ctypes.c_void_p(); w = ctypes.c_int(); sz = ctypes.c_int(); kind = ctypes.c_int()
        i = 0
        while self.lib.vt_get_oob(i, ctypes.byref(a), ctypes.byref(pc), ctypes.byref(w), ctypes.byref(sz), ctypes.byref(kind)):
            out.append({"addr": a.value, "pc": pc.value, "write": w.value, "size": sz.value,
                        "kind": {1: "outside-all-regions", 2: "write-to-readonly-argument", 3: "use-after-free"}.get(kind.value, "?")})
            i += 1
        return out

    def points(self):
        out = []
        reg = ctypes.c_long(); idx = ctypes.c_long(); tid = ctypes.c_int(); w = ctypes.c_int()
        n = self.lib.vt_n_points()
        for i in range(n):
            self.lib.vt_get_point(i, ctypes.byref(reg), ctypes.byref(idx), ctypes.byref(tid), ctypes.byref(w))
            out.append((reg.value, idx.value, tid.value, w.value))
        return out

    def set_schedule(self, sched):
        n = len(sched)
        R = (ctypes.c_long * max(n, 1))(*[s[0] for s in sched])
        A = (ctypes.c_long * max(n, 1))(*[s[1] for s in sched])
        T = (ctypes.c_int * max(n, 1))(*[s[2] for s in sched])
        self.lib.vt_set_schedule(n, R, A, T)

    def srcline(self, pc):
        """file:line of a return address inside the extension (addr2line on the load-relative address)."""
        import subprocess

        if not pc:
            return "?"
        base = None
        for l in open("/proc/self/maps"):
            if self.phonoc.__file__ in l:
                base = int(l.split("-")[0], 16)
                break
        if base is None:
            return hex(pc)
        r = subprocess.run(["addr2line", "-e", self.phonoc.__file__, hex(pc - base - 1)], capture_output=True, text=True)
        return os.path.relpath(r.stdout.strip(), build.REPO) if r.stdout.strip() else hex(pc)
