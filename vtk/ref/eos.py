"""Textbook equations of state E(V; E0, B0, B0', V0), written independently of phonopy."""
from __future__ import annotations

import numpy as np


def birch_murnaghan(V, E0, B0, Bp, V0):
    eta = (V0 / V) ** (2.0 / 3.0)
    return E0 + 9.0 * V0 * B0 / 16.0 * ((eta - 1.0) ** 3 * Bp + (eta - 1.0) ** 2 * (6.0 - 4.0 * eta))


def murnaghan(V, E0, B0, Bp, V0):
    return E0 + B0 * V / Bp * ((V0 / V) ** Bp / (Bp - 1.0) + 1.0) - B0 * V0 / (Bp - 1.0)


def vinet(V, E0, B0, Bp, V0):
    x = (V / V0) ** (1.0 / 3.0)
    return E0 + 2.0 * B0 * V0 / (Bp - 1.0) ** 2 * (2.0 - (5.0 + 3.0 * Bp * (x - 1.0) - 3.0 * x) * np.exp(-1.5 * (Bp - 1.0) * (x - 1.0)))


EOS = {"vinet": vinet, "birch_murnaghan": birch_murnaghan, "murnaghan": murnaghan}
