"""C03 — dynamical matrix is Hermitian, time-reversal symmetric, G-periodic (spectrum), point-group invariant
(spectrum, symmetric fc), obeys the acoustic sum rule at Gamma and scales as s/t.

Product walk over (crystal variant, S, P) x fc kind x layout x language; inside a case *every* q of the q-set
is combined with *every* G in {-1,0,1}^3 and *every* reciprocal point-group operation reported by phonopy.
All oracles are relations on phonopy's own output; the reported operations are cross-checked against the
crystal by brute force so the invariance check cannot be vacuous.
"""
from __future__ import annotations

import itertools

import numpy as np

from vtk import phx
from vtk.alphabet import crystals as X
from vtk.alphabet import qsets as Q
from vtk.alphabet import smat as SM
from vtk.ref import springs as SP

ID = "C03"
VARIANT = "omp"
TECHNIQUE = "bounded-exhaustive product walk; relational oracles (q,-q), (q,q+G) for all 27 G, (q,Rq) for all reported R, scaling pairs (s,t)"
RULE = ("case = (crystal variant, S, P, fc kind, layout, language); inside it all (q,G), (q,R), (s,t) pairs are evaluated; "
        "non-trivial = more than one atom in the primitive cell or supercell larger than primitive cell")
ASSUMPTIONS = ["numpy eigvalsh", "vtk/ref/springs.py supplies force constants with the full crystal symmetry"]
BUDGET = {"quick": 900, "thorough": 3400}
TOL = 1e-9

OPTS = {"fck": ["springs-short", "random", "springs-nn", "springs-long"], "layout": ["full", "compact"], "lang": ["C", "Py"]}


def selfcheck():
    SP.selfcheck()


def plan(tier, seed):
    from checks.c02 import prefixes

    keys = list(OPTS)
    opts = [dict(zip(keys, t)) for t in itertools.product(*[OPTS[k] for k in keys])]
    groups = [[dict(pre, qtier=tier, **o) for o in opts] for pre in prefixes(tier, seed)]
    # the sparse storage of the shortest vectors (another kernel, another basis change) for cells whose reduced supercell basis is not
    # symmetric: hexagonal, monoclinic, triclinic, sheared supercells
    for pre in prefixes(tier, seed):
        if pre["xtal"] in ("hcp-2", "wurtzite-4", "tri-P1-3", "mono-P21-2", "rhomb-prim-2", "hex-1") and pre["pm"] == "none" and abs(SM.det3(pre["S"])) > 1:
            groups.append([dict(pre, qtier=tier, sparse=True, **o) for o in opts if o["lang"] == "C" and o["fck"] in ("springs-long", "springs-nn")])
    groups.sort(key=lambda g: -abs(SM.det3(g[0]["S"])) * len(X.by_name()[g[0]["xtal"]]["symbols"]))
    meta = {"alphabet": {"prefixes": len(groups), "option_tuples": len(opts), "G": 27, "scale_pairs": 9,
                         "R": "all primitive_symmetry.reciprocal_operations"},
            "bound": "complete product", "exhaustive": True,
            "not_covered": ["q-points outside the q-set", "NAC limits (see C08; here only Hermiticity, time reversal and point-group invariance with NAC)"]}
    return groups, meta


def dscale_(D):
    return max(np.abs(D).max(), 1e-12)


def _spec(D):
    return np.linalg.eigvalsh((D + D.conj().T) / 2)


def _is_crystal_op(ph, R):
    """Is the reciprocal operation R (q' = R q, reduced coordinates) — or -R — induced by a space-group operation of
    the primitive cell?  Brute force, independent of spglib."""
    p = ph.primitive
    L = np.asarray(p.cell)
    B = np.linalg.inv(L).T
    M = B @ B.T
    R = np.asarray(R, float)
    if abs(abs(np.linalg.det(R)) - 1) > 1e-9 or np.abs(R.T @ M @ R - M).max() > 1e-7 * np.abs(M).max():
        return False
    pos = p.scaled_positions
    sym = p.symbols
    for sgn in (1, -1):
        W = np.linalg.inv(sgn * R).T  # direct-space rotation in reduced coordinates: (Rq).(Wr) = q.r
        for j in range(len(pos)):
            if sym[j] != sym[0]:
                continue
            t = pos[j] - W @ pos[0]
            ok = True
            for i in range(len(pos)):
                img = W @ pos[i] + t
                d = pos - img
                d -= np.rint(d)
                m = [k for k in range(len(pos)) if np.abs(d[k] @ L).max() < 1e-4 and sym[k] == sym[i]]
                if not m:
                    ok = False
                    break
            if ok:
                return True
    return False


def run_group(cases, seed):
    c = phx.xtal(cases[0]["xtal"], cases[0]["variant"], seed)
    st = {}
    return [run_case(case, seed, c, st) for case in cases]


def run_case(case, seed, c, st):
    from phonopy.harmonic.dynamical_matrix import DynamicalMatrix

    tag = "%s/%s/%s%s" % (case["fck"], case["layout"], case["lang"], "/sparse-svecs" if case.get("sparse") else "")
    tier = case.get("qtier", "quick")
    if "ph" not in st:
        try:
            st["ph"] = phx.make_phonopy(c, case["S"], case["pm"], **({"store_dense_svecs": False} if case.get("sparse") else {}))
        except Exception as e:
            st["ph"] = e
    ph = st["ph"]
    if isinstance(ph, Exception):
        if case["pm"] == "auto":
            return dict(ok=True, skipped="auto primitive matrix guess raised")
        return dict(ok=False, sig="C03/constructor-raised", msg=str(ph)[:200])
    ns, npr = len(ph.supercell), len(ph.primitive)
    p2s = np.asarray(ph.primitive.p2s_map)
    rng = np.random.default_rng(77 + seed)
    if case["fck"] not in st:
        if case["fck"] == "random":
            st[case["fck"]] = rng.normal(size=(ns, ns, 3, 3))
        else:
            mdl = phx.model_for(ph, case["fck"].split("-")[1], seed)
            st[case["fck"]] = phx.supercell_fc(ph, mdl)
    full = st[case["fck"]]
    fc = np.array(full if case["layout"] == "full" else full[p2s], dtype="double", order="C")
    symmetric = case["fck"] != "random"
    lang = case["lang"]
    dm = DynamicalMatrix(ph.supercell, ph.primitive, fc.copy())
    trans = [0]

    def D(q):
        dm.run(np.asarray(q, float), lang=lang)
        trans[0] += 1
        return np.array(dm.dynamical_matrix)

    base = [np.zeros(3)] + Q.zone_boundary()[1:] + Q.near_gamma()[:1] + Q.generic(seed, 3)
    if "comm" not in st:
        Lp = np.asarray(ph.primitive.cell)
        Ls = np.asarray(ph.supercell.cell)
        Sp = np.rint(Ls @ np.linalg.inv(Lp)).astype(int).T
        st["comm"] = Q.commensurate(Sp)
    comm = st["comm"]
    base += comm[1:4]
    if lang == "Py":
        base = base[:1] + base[8:12] + comm[1:2]
    D_at = [D(q) for q in base]
    scale = max(max(np.abs(d).max() for d in D_at), 1e-9)
    nontriv = bool(npr > 1 or ns > npr)

    def fail(kind, msg, resid):
        return dict(ok=False, sig="C03/%s/%s" % (kind, tag), resid=resid, transitions=trans[0], nontrivial=nontriv,
                    msg="%s %s S=%s pm=%s %s: %s" % (case["xtal"], case["variant"], case["S"], case["pm"], tag, msg))

    worst = 0.0
    # 1 Hermitian, 2 time reversal
    for q, d in zip(base, D_at):
        e = np.abs(d - d.conj().T).max() / scale
        worst = max(worst, e)
        if e > 1e-12:
            return fail("hermitian", "|D-D^H|/scale=%.3g at q=%s" % (e, q.tolist()), e)
        dmq = D(-q)
        e = np.abs(dmq - d.conj()).max() / scale
        worst = max(worst, e)
        if e > TOL:
            return fail("time-reversal", "|D(-q)-conj D(q)|/scale=%.3g at q=%s" % (e, q.tolist()), e)
    # 3 G periodicity of the spectrum: every q x every G in {-1,0,1}^3
    gs = [g for g in Q.GSHIFTS if g.any()]
    if lang == "Py":
        gs = gs[::5]
    npairs_G = 0
    for q, d in zip(base, D_at):
        s0 = _spec(d)
        for g in gs:
            s1 = _spec(D(q + g))
            npairs_G += 1
            e = np.abs(s1 - s0).max() / scale
            worst = max(worst, e)
            if e > TOL:
                return fail("G-periodicity", "spectrum changes by %.3g (rel) between q=%s and q+G, G=%s" % (e, q.tolist(), g.tolist()), e)
    # 4 point-group invariance of the spectrum (symmetric fc only), all reported operations
    npairs_R = 0
    if symmetric:
        ops = ph.primitive_symmetry.reciprocal_operations
        if "opsok" not in st:
            st["opsok"] = [bool(_is_crystal_op(ph, R)) for R in ops]
        if not all(st["opsok"]):
            k = st["opsok"].index(False)
            return fail("reported-operation-not-a-symmetry", "reciprocal operation #%d %s is not induced by a space-group operation of the primitive cell" % (k, np.asarray(ops[k]).tolist()), 1.0)
        qsel = list(zip(base, D_at))[1:] if lang == "C" else list(zip(base, D_at))[1:4]
        if case["fck"] != "springs-short":
            # range exceeds half the supercell: the folded constants only keep the operations that also map the
            # supercell lattice (equivalently the commensurate q-set) onto itself
            Lp = np.asarray(ph.primitive.cell)
            Sp = np.rint(np.asarray(ph.supercell.cell) @ np.linalg.inv(Lp)).astype(int).T
            keep = []
            for R in ops:
                v = np.array([Sp.T @ (np.asarray(R, float) @ qc) for qc in comm])
                keep.append(bool(np.abs(v - np.rint(v)).max() < 1e-8))
            ops = [R for R, k_ in zip(ops, keep) if k_]
        for q, d in qsel:
            s0 = _spec(d)
            for R in ops:
                s1 = _spec(D(np.asarray(R, float) @ q))
                npairs_R += 1
                e = np.abs(s1 - s0).max() / scale
                worst = max(worst, e)
                # a structure typed with 7 decimals has its symmetry only to ~1e-7 in the coordinates, the spring model follows the
                # typed positions: the spectrum is then invariant to ~1e-6, not to rounding (a missed boundary image gives 1e-2)
                if e > (1e-5 if case["variant"] == "typed7" else TOL):
                    return fail("point-group", "spectrum changes by %.3g (rel) under q -> Rq, R=%s, q=%s" % (e, np.asarray(R).tolist(), q.tolist()), e)
        # 5 sum rule
        s0 = _spec(D_at[0])
        nz = int((np.abs(s0) <= 1e-9 * scale).sum())
        if nz < 3:
            return fail("sum-rule", "only %d eigenvalues vanish at Gamma: %s" % (nz, s0[:4].tolist()), float(np.sort(np.abs(s0))[2] / scale))
    # 4b the same relations with the non-analytical term correction switched on (Wang and Gonze-Lee), Born tensors that are
    # not symmetric matrices and a general dielectric tensor (phonopy symmetrises both with the crystal's operations)
    if lang == "C" and symmetric and c.get("polar") and case["layout"] == "full" and case["fck"] == "springs-nn" and case["variant"] != "typed7":
        gn = np.random.default_rng(41 + seed)
        nat = len(ph.primitive)
        born = gn.normal(size=(nat, 3, 3)) * 0.5 + np.array([np.eye(3) * (1.4 if i % 2 == 0 else -1.4) for i in range(nat)])
        born -= born.mean(axis=0)
        eps = np.eye(3) * 2.8 + 0.3 * gn.normal(size=(3, 3))
        # both correction schemes depend on the supercell (Wang: the term is spread over the supercell images; Gonze-Lee: the
        # short-range part is fitted at the commensurate points): only operations that also map the supercell lattice apply
        Lp_ = np.asarray(ph.primitive.cell)
        Sp_ = np.rint(np.asarray(ph.supercell.cell) @ np.linalg.inv(Lp_)).astype(int).T
        ops_n = [R for R in ph.primitive_symmetry.reciprocal_operations
                 if np.abs(np.array([Sp_.T @ (np.asarray(R, float) @ qc) for qc in comm]) - np.rint(np.array([Sp_.T @ (np.asarray(R, float) @ qc) for qc in comm]))).max() < 1e-8]
        try:
            for method in ("wang", "gonze"):
                ph.force_constants = fc.copy()
                ph.nac_params = {"born": born.copy(), "dielectric": eps.copy(), "factor": 14.399652, "method": method}
                for q in base[8:11]:
                    Dq = np.array(ph.get_dynamical_matrix_at_q(q))
                    trans[0] += 1
                    sc_n = max(np.abs(Dq).max(), 1e-12)
                    e = np.abs(Dq - Dq.conj().T).max() / sc_n
                    if e > TOL:
                        return fail("hermitian/nac=%s" % method, "|D-D^H|/scale=%.3g at q=%s with NAC" % (e, q.tolist()), e)
                    e = np.abs(np.array(ph.get_dynamical_matrix_at_q(-q)) - Dq.conj()).max() / sc_n
                    if e > TOL:
                        return fail("time-reversal/nac=%s" % method, "|D(-q)-conj D(q)|/scale=%.3g at q=%s with NAC" % (e, q.tolist()), e)
                    s0 = _spec(Dq)
                    for R in ops_n:
                        s1 = _spec(np.array(ph.get_dynamical_matrix_at_q(np.asarray(R, float) @ q)))
                        trans[0] += 1
                        # Gonze-Lee: the truncated reciprocal sum is invariant to its own precision only (cf. C08)
                        e = np.abs(s1 - s0).max() / max(np.abs(s0).max(), 1e-12)
                        if e > (1e-8 if method == "wang" else 5e-5):
                            return fail("point-group/nac=%s" % method, "spectrum changes by %.3g (rel) under q -> Rq with NAC, R=%s, q=%s" % (e, np.asarray(R).tolist(), q.tolist()), e)
        finally:
            ph.nac_params = None
    # 5b the relations do not depend on how the caller stores the q-points (views, Fortran order, slices of tables)
    if lang == "C":
        from vtk.alphabet import qsets as QL

        qarr = np.array(base[6:11], float)
        Dref = [D(q) for q in qarr]
        for lname, qa in QL.layouts(qarr).items():
            # the batched entry point (what run_qpoints / meshes / band paths use)
            from phonopy.harmonic.dynamical_matrix import run_dynamical_matrix_solver_c

            for arr, sgn in ((qa, 1), (-np.asfortranarray(qarr) if lname == "fortran-order" else None, -1)):
                if arr is None:
                    continue
                Ds = np.array(run_dynamical_matrix_solver_c(dm, arr))
                trans[0] += 1
                for k in range(len(qarr)):
                    want = Dref[k] if sgn == 1 else Dref[k].conj()
                    e = np.abs(Ds[k] - want).max() / dscale_(Dref[k])
                    if e > TOL:
                        return fail("q-layout-batch", "batched D(%sq) with the q-points as %s differs from one-by-one evaluation by %.3g" % ("-" if sgn < 0 else "", lname, e), e)
            if not isinstance(qa, np.ndarray):
                continue
            for k in range(len(qarr)):
                for sgn in (1, -1):
                    Dk = D(sgn * qa[k]) if sgn == 1 else D(-qa[k])
                    want = Dref[k] if sgn == 1 else Dref[k].conj()
                    e = np.abs(Dk - want).max() / dscale_(Dref[k])
                    if e > TOL:
                        return fail("q-layout", "D(%sq) evaluated at a row of a %s array differs from the same q as a fresh array by %.3g" % ("-" if sgn < 0 else "", lname, e), e)
    # 5c ... nor on how the caller stores the force constants ((3N,3M) Hessian viewed as (N,M,3,3); Fortran order)
    if lang == "C":
        n1, n2 = fc.shape[:2]
        Hs = np.ascontiguousarray(fc.transpose(0, 2, 1, 3).reshape(3 * n1, 3 * n2))
        for lname, fv in (("hessian-view", Hs.reshape(n1, 3, n2, 3).transpose(0, 2, 1, 3)), ("fortran-order", np.asfortranarray(fc))):
            dmv = DynamicalMatrix(ph.supercell, ph.primitive, fv)
            for q in base[8:10]:
                dmv.run(np.asarray(q, float), lang=lang)
                trans[0] += 1
                e = np.abs(np.array(dmv.dynamical_matrix) - D(q)).max() / scale
                if e > TOL:
                    return fail("fc-layout", "D(q) from the same force constants stored as %s differs by %.3g" % (lname, e), e)
            if not np.array_equal(fv, fc):
                return fail("fc-layout-input-modified", "force constants handed in as %s were modified" % lname, 1.0)
    # 6 scaling: fc*s, masses*t through the Phonopy API
    npairs_S = 0
    if lang == "C":
        qsc = [b for b in base[8:11]]
        m0 = np.array(ph.masses, float)
        ph.force_constants = fc.copy()
        ref = [_spec(np.array(ph.get_dynamical_matrix_at_q(q))) for q in qsc]
        try:
            for s_, t_ in itertools.product((0.5, 2.0, 3.7), repeat=2):
                # force constants first, a query, then the masses: later queries must see the new masses on every path
                ph.force_constants = fc * s_
                ph.run_qpoints(qsc)
                ph.masses = m0 * t_
                ph.run_qpoints(qsc, with_dynamical_matrices=True)
                Dq_ = ph.get_qpoints_dict()["dynamical_matrices"]
                for k_, r0 in enumerate(ref):
                    e = np.abs(_spec(np.array(Dq_[k_])) - r0 * (s_ / t_)).max() / (scale * s_ / t_)
                    if e > TOL:
                        return fail("scaling/run_qpoints-after-masses", "after force constants, a query and then masses*=t, run_qpoints still uses the old masses: eigenvalues off (s/t) by %.3g (s=%g,t=%g)" % (e, s_, t_), e)
                for q, r0 in zip(qsc, ref):
                    s1 = _spec(np.array(ph.get_dynamical_matrix_at_q(q)))
                    trans[0] += 1
                    npairs_S += 1
                    e = np.abs(s1 - r0 * (s_ / t_)).max() / (scale * s_ / t_)
                    worst = max(worst, e)
                    if e > TOL:
                        return fail("scaling", "eigenvalues of (s*fc, t*m) differ from (s/t)*eigenvalues by %.3g (s=%g,t=%g)" % (e, s_, t_), e)
                if (s_, t_) == (2.0, 3.7):
                    # the scaled state survives copy(): the copy is built from the unit cell's masses
                    ph2 = phx.quiet(ph.copy)  # init parameters (cells incl. masses) only
                    ph2.force_constants = fc * s_
                    for q, r0 in zip(qsc, ref):
                        s1 = _spec(np.array(ph2.get_dynamical_matrix_at_q(q)))
                        trans[0] += 1
                        e = np.abs(s1 - r0 * (s_ / t_)).max() / (scale * s_ / t_)
                        if e > TOL:
                            return fail("scaling-through-copy", "after masses*=t, fc*=s a copy() of the object has eigenvalues off (s/t)*original by %.3g" % e, e)
                # masses must have propagated to supercell and unit cell
                sm = np.asarray(ph.supercell.masses)
                p2p = ph.primitive.p2p_map
                want = (m0 * t_)[[p2p[x] for x in ph.primitive.s2p_map]]
                if np.abs(sm - want).max() > 1e-12 * want.max():
                    return fail("scaling", "masses setter did not propagate to the supercell", 1.0)
        finally:
            ph.masses = m0
    return dict(ok=True, resid=worst, transitions=trans[0], nontrivial=nontriv, outcome="ok:" + case["fck"],
                count={"qG_pairs": npairs_G, "qR_pairs": npairs_R, "st_pairs": npairs_S})
