/* vtomp — a controlled OpenMP runtime for model checking phonopy's parallel regions.
 *
 * The C sources are compiled with  gcc -O0 -fopenmp -fsanitize=thread  (instrumentation only) and linked
 * against this file INSTEAD of libgomp and libtsan.  It provides
 *   - GOMP_parallel: the team's threads are ucontext coroutines; a schedule decides who runs;
 *   - __tsan_read/write hooks: every instrumented access is (i) checked against the set of memory the kernel
 *     may touch (bounds monitor), (ii) entered into a byte-granular shadow map that yields the exact
 *     inter-thread dependency relation of the region (conflicts = data races), (iii) a scheduling point;
 *   - wrapped malloc/calloc/realloc/free: allocation table for the bounds monitor and a quarantine so that
 *     sequentially executed virtual threads never get the same block (no false conflicts by address reuse).
 * Only constructs that occur in /repo/c are modelled; the build fails on any other GOMP_ or omp_ symbol.
 */
#define _GNU_SOURCE
#include <pthread.h>
#include <stdint.h>
#include <stdio.h>
#include <stdlib.h>
#include <string.h>
#include <ucontext.h>

#define MAXT 16
#define STACKSZ (1 << 20)

static int vt_team = 1, cur_tid = 0, cur_team = 1, in_region = 0;
static ucontext_t main_ctx, ctx[MAXT];
static char *stacks[MAXT];
static int done[MAXT];
static void (*reg_fn)(void *);
static void *reg_data;

/* ---- statistics ---- */
static long n_regions = 0, n_regions_multi = 0, n_conflicts = 0, total_access = 0, n_oob = 0, n_switches = 0;
static long region_access = 0; /* access counter inside the current region (all threads) */
static long max_chunks = 0;    /* max number of threads that executed at least one access in a region */

/* ---- schedule: list of (region index, access index, thread to switch to) ---- */
#define MAXSW 64
static long sw_region[MAXSW], sw_at[MAXSW];
static int sw_to[MAXSW], n_sw = 0, sw_pos = 0;

/* ---- shadow map with epochs ---- */
typedef struct {
    uintptr_t a;
    uint32_t epoch;
    uint16_t r, w;
    void *wpc; /* pc of a write (for the report) */
} sh_t;
static sh_t *sh;
static size_t sh_cap = 0, sh_n = 0;
static uint32_t epoch = 1;
static int detect = 0;

static void sh_reset(void) {
    if (!sh) {
        sh_cap = 1 << 18;
        sh = calloc(sh_cap, sizeof(sh_t));
    }
    epoch++;
    sh_n = 0;
}
static sh_t *sh_get(uintptr_t a);
static void sh_grow(void) {
    size_t oc = sh_cap;
    sh_t *o = sh;
    sh_cap *= 4;
    sh = calloc(sh_cap, sizeof(sh_t));
    sh_n = 0;
    for (size_t i = 0; i < oc; i++)
        if (o[i].a && o[i].epoch == epoch) {
            sh_t *e = sh_get(o[i].a);
            e->r = o[i].r;
            e->w = o[i].w;
            e->wpc = o[i].wpc;
        }
    free(o);
}
static sh_t *sh_get(uintptr_t a) {
    if (sh_n * 2 > sh_cap) sh_grow();
    size_t h = (a * 0x9E3779B97F4A7C15ull) >> 17;
    for (;;) {
        sh_t *e = &sh[h & (sh_cap - 1)];
        if (e->epoch == epoch && e->a == a) return e;
        if (e->epoch != epoch || !e->a) {
            e->a = a;
            e->epoch = epoch;
            e->r = e->w = 0;
            e->wpc = 0;
            sh_n++;
            return e;
        }
        h++;
    }
}

/* conflict records */
#define MAXC 64
static struct {
    uintptr_t a;
    void *pc, *other_pc;
    int tid, w, others;
    long region, idx;
} confs[MAXC];
static int n_confs = 0;

/* conflict address set of the last detect run (for schedule exploration) */
#define MAXCA 4096
static uintptr_t conf_addr[MAXCA];
static int n_conf_addr = 0;
/* candidate switch points: accesses that touch a conflict address (recorded when log_points is on) */
#define MAXPT 200000
static struct {
    long region, idx;
    int tid, w;
} pts[MAXPT];
static int n_pts = 0, log_points = 0;

/* ---- bounds monitor ---- */
#define MAXREG 64
static struct {
    uintptr_t lo, hi;
    int writable;
} regs[MAXREG];
static int n_regs = 0, bounds_on = 0;
#define MAXALLOC 65536
static struct {
    uintptr_t lo, hi;
    int live;
} allocs[MAXALLOC];
static int n_allocs = 0;
static uintptr_t main_lo = 0, main_hi = 0;
#define MAXIMG 32
static struct {
    uintptr_t lo, hi;
} img[MAXIMG];
static int n_img = 0;
#define MAXOOB 32
static struct {
    uintptr_t a;
    void *pc;
    int w, sz, kind;
} oobs[MAXOOB];

/* ---- control API (called through ctypes) ---- */
static int vt_force_if = 0;
static long n_if_serial = 0;
/* 1: a region whose `if(...)` clause evaluated to false (libgomp is then asked for a team of 1) is run with the full team anyway */
void vt_set_force_if(int v) { vt_force_if = v; }
long vt_if_serial(void) { return n_if_serial; }
void vt_set_team(int t) { vt_team = t < 1 ? 1 : (t > MAXT ? MAXT : t); }
void vt_set_detect(int d) { detect = d; }
void vt_set_log_points(int d) {
    log_points = d;
    n_pts = 0;
}
void vt_reset_stats(void) {
    n_conflicts = n_regions = n_regions_multi = total_access = n_oob = n_switches = 0;
    n_if_serial = 0;
    n_confs = 0;
    n_conf_addr = 0;
    max_chunks = 0;
    sw_pos = 0;
    n_pts = 0;
}
long vt_conflicts(void) { return n_conflicts; }
long vt_regions(void) { return n_regions; }
long vt_regions_multi(void) { return n_regions_multi; }
long vt_total_access(void) { return total_access; }
long vt_oob(void) { return n_oob; }
long vt_switches(void) { return n_switches; }
long vt_max_chunks(void) { return max_chunks; }
int vt_n_confs(void) { return n_confs; }
int vt_get_conf(int i, uintptr_t *a, void **pc, void **opc, int *tid, int *w, long *region, long *idx) {
    if (i >= n_confs) return 0;
    *a = confs[i].a;
    *pc = confs[i].pc;
    *opc = confs[i].other_pc;
    *tid = confs[i].tid;
    *w = confs[i].w;
    *region = confs[i].region;
    *idx = confs[i].idx;
    return 1;
}
int vt_n_points(void) { return n_pts; }
int vt_get_point(int i, long *region, long *idx, int *tid, int *w) {
    if (i >= n_pts) return 0;
    *region = pts[i].region;
    *idx = pts[i].idx;
    *tid = pts[i].tid;
    *w = pts[i].w;
    return 1;
}
int vt_get_oob(int i, uintptr_t *a, void **pc, int *w, int *sz, int *kind) {
    if (i >= n_oob || i >= MAXOOB) return 0;
    *a = oobs[i].a;
    *pc = oobs[i].pc;
    *w = oobs[i].w;
    *sz = oobs[i].sz;
    *kind = oobs[i].kind;
    return 1;
}
void vt_set_schedule(int n, long *region, long *at, int *to) {
    n_sw = n > MAXSW ? MAXSW : n;
    for (int i = 0; i < n_sw; i++) {
        sw_region[i] = region[i];
        sw_at[i] = at[i];
        sw_to[i] = to[i];
    }
    sw_pos = 0;
}

static void find_main_stack(void) {
    pthread_attr_t at;
    void *sp;
    size_t sz;
    if (pthread_getattr_np(pthread_self(), &at) == 0) {
        pthread_attr_getstack(&at, &sp, &sz);
        main_lo = (uintptr_t)sp;
        main_hi = (uintptr_t)sp + sz;
        pthread_attr_destroy(&at);
    }
}
static void find_image(void) {
    /* all mappings of the shared object that contains this function */
    FILE *f = fopen("/proc/self/maps", "r");
    char line[1024], self[512] = "";
    uintptr_t me = (uintptr_t)&find_image;
    if (!f) return;
    while (fgets(line, sizeof line, f)) {
        uintptr_t lo, hi;
        char path[512] = "";
        if (sscanf(line, "%lx-%lx %*s %*s %*s %*s %511s", &lo, &hi, path) >= 2 && me >= lo && me < hi) strcpy(self, path);
    }
    rewind(f);
    n_img = 0;
    while (fgets(line, sizeof line, f)) {
        uintptr_t lo, hi;
        char path[512] = "";
        if (sscanf(line, "%lx-%lx %*s %*s %*s %*s %511s", &lo, &hi, path) >= 3 && self[0] && !strcmp(path, self) && n_img < MAXIMG) {
            img[n_img].lo = lo;
            img[n_img].hi = hi;
            n_img++;
        }
    }
    /* anonymous mapping directly after the image = .bss */
    fclose(f);
}
void vt_bounds_begin(void) {
    if (!main_hi) find_main_stack();
    if (!n_img) find_image();
    n_regs = 0;
    n_allocs = 0;
    bounds_on = 1;
}
void vt_bounds_end(void) { bounds_on = 0; }
void vt_add_region(void *p, long len, int writable) {
    if (n_regs < MAXREG) {
        regs[n_regs].lo = (uintptr_t)p;
        regs[n_regs].hi = (uintptr_t)p + len;
        regs[n_regs].writable = writable;
        n_regs++;
    }
}

/* ---- heap ---- */
void *__real_malloc(size_t);
void *__real_calloc(size_t, size_t);
void *__real_realloc(void *, size_t);
void __real_free(void *);
static void *quar[1 << 16];
static int n_quar = 0;
static void note_alloc(void *p, size_t n) {
    if (bounds_on && p && n_allocs < MAXALLOC) {
        allocs[n_allocs].lo = (uintptr_t)p;
        allocs[n_allocs].hi = (uintptr_t)p + n;
        allocs[n_allocs].live = 1;
        n_allocs++;
    }
}
static void note_free(void *p) {
    if (!bounds_on) return;
    for (int i = n_allocs - 1; i >= 0; i--)
        if (allocs[i].lo == (uintptr_t)p && allocs[i].live) {
            allocs[i].live = 0;
            return;
        }
}
void *__wrap_malloc(size_t n) {
    void *p = __real_malloc(n);
    note_alloc(p, n);
    return p;
}
void *__wrap_calloc(size_t a, size_t b) {
    void *p = __real_calloc(a, b);
    note_alloc(p, a * b);
    return p;
}
void *__wrap_realloc(void *q, size_t n) {
    note_free(q);
    void *p = __real_realloc(q, n);
    note_alloc(p, n);
    return p;
}
void __wrap_free(void *p) {
    if (!p) return;
    note_free(p);
    if (in_region && n_quar < (1 << 16))
        quar[n_quar++] = p;
    else
        __real_free(p);
}

/* ---- team ---- */
static int touched[MAXT];
static void tramp(int tid) {
    reg_fn(reg_data);
    done[tid] = 1;
    swapcontext(&ctx[tid], &main_ctx);
}
void GOMP_parallel(void (*fn)(void *), void *data, unsigned nthreads, unsigned flags) {
    int T = nthreads ? (int)nthreads : vt_team;
    if (nthreads == 1 && !in_region) {
        n_if_serial++;
        if (vt_force_if) T = vt_team;
    }
    if (T > MAXT) T = MAXT;
    if (in_region || T == 1) { /* nested or single-thread team: run inline */
        int st = cur_team, si = cur_tid, ir = in_region;
        if (!in_region) n_regions++;
        cur_team = 1;
        cur_tid = 0;
        in_region = ir; /* unchanged */
        fn(data);
        cur_team = st;
        cur_tid = si;
        return;
    }
    in_region = 1;
    cur_team = T;
    reg_fn = fn;
    reg_data = data;
    region_access = 0;
    if (detect) sh_reset();
    for (int t = 0; t < T; t++) {
        if (!stacks[t]) stacks[t] = __real_malloc(STACKSZ);
        done[t] = 0;
        touched[t] = 0;
        getcontext(&ctx[t]);
        ctx[t].uc_stack.ss_sp = stacks[t];
        ctx[t].uc_stack.ss_size = STACKSZ;
        ctx[t].uc_link = &main_ctx;
        makecontext(&ctx[t], (void (*)(void))tramp, 1, t);
    }
    int next = 0;
    for (;;) {
        int all = 1;
        for (int t = 0; t < T; t++)
            if (!done[t]) all = 0;
        if (all) break;
        if (done[next]) {
            next = (next + 1) % T;
            continue;
        }
        int me = next;
        cur_tid = me;
        swapcontext(&main_ctx, &ctx[me]);
        /* back in the scheduler: either `me` finished or it yielded with cur_tid = requested thread */
        if (!done[me])
            next = cur_tid;
        else
            next = (me + 1) % T;
    }
    int ch = 0;
    for (int t = 0; t < T; t++) ch += touched[t];
    if (ch > max_chunks) max_chunks = ch;
    n_regions++;
    n_regions_multi++;
    in_region = 0;
    cur_team = 1;
    cur_tid = 0;
    for (int i = 0; i < n_quar; i++) __real_free(quar[i]);
    n_quar = 0;
}
int omp_get_thread_num(void) { return in_region ? cur_tid : 0; }
int omp_get_num_threads(void) { return in_region ? cur_team : 1; }
int omp_get_max_threads(void) { return vt_team; }

static inline int on_vstack(uintptr_t a) {
    for (int t = 0; t < cur_team; t++)
        if (stacks[t] && a >= (uintptr_t)stacks[t] && a < (uintptr_t)stacks[t] + STACKSZ) return 1;
    return 0;
}
static inline int in_bounds(uintptr_t a, int sz, int w, int *kind) {
    uintptr_t b = a + sz;
    for (int i = 0; i < n_regs; i++)
        if (a >= regs[i].lo && b <= regs[i].hi) {
            if (w && !regs[i].writable) {
                *kind = 2; /* write into a read-only argument buffer */
                return 0;
            }
            return 1;
        }
    if (a >= main_lo && b <= main_hi) return 1;
    for (int t = 0; t < MAXT; t++)
        if (stacks[t] && a >= (uintptr_t)stacks[t] && b <= (uintptr_t)stacks[t] + STACKSZ) return 1;
    for (int i = n_allocs - 1; i >= 0; i--)
        if (a >= allocs[i].lo && b <= allocs[i].hi) {
            if (!allocs[i].live) {
                *kind = 3; /* use after free */
                return 0;
            }
            return 1;
        }
    for (int i = 0; i < n_img; i++)
        if (a >= img[i].lo && b <= img[i].hi) return 1;
    *kind = 1;
    return 0;
}
static inline int is_conf_addr(uintptr_t a) {
    for (int i = 0; i < n_conf_addr; i++)
        if (conf_addr[i] == a) return 1;
    return 0;
}
static inline void hook(uintptr_t a, int sz, int w, void *pc) {
    if (bounds_on) {
        int kind = 0;
        if (!in_bounds(a, sz, w, &kind)) {
            if (n_oob < MAXOOB) {
                oobs[n_oob].a = a;
                oobs[n_oob].pc = pc;
                oobs[n_oob].w = w;
                oobs[n_oob].sz = sz;
                oobs[n_oob].kind = kind;
            }
            n_oob++;
        }
    }
    if (!in_region || cur_team == 1) return;
    total_access++;
    touched[cur_tid] = 1;
    long idx = region_access++;
    if (!on_vstack(a)) {
        if (detect) {
            uint16_t bit = 1u << cur_tid;
            for (int b = 0; b < sz; b++) {
                sh_t *e = sh_get(a + b);
                int c = w ? ((e->r | e->w) & ~bit) : (e->w & ~bit);
                if (c) {
                    n_conflicts++;
                    if (n_confs < MAXC && b == 0) {
                        confs[n_confs].a = a + b;
                        confs[n_confs].pc = pc;
                        confs[n_confs].other_pc = e->wpc;
                        confs[n_confs].tid = cur_tid;
                        confs[n_confs].w = w;
                        confs[n_confs].others = c;
                        confs[n_confs].region = n_regions;
                        confs[n_confs].idx = idx;
                        n_confs++;
                    }
                    if (n_conf_addr < MAXCA && !is_conf_addr(a + b)) conf_addr[n_conf_addr++] = a + b;
                }
                if (w) {
                    e->w |= bit;
                    e->wpc = pc;
                } else
                    e->r |= bit;
            }
        }
        if (log_points && n_pts < MAXPT) {
            for (int b = 0; b < sz; b++)
                if (is_conf_addr(a + b)) {
                    pts[n_pts].region = n_regions;
                    pts[n_pts].idx = idx;
                    pts[n_pts].tid = cur_tid;
                    pts[n_pts].w = w;
                    n_pts++;
                    break;
                }
        }
    }
    if (sw_pos < n_sw && sw_region[sw_pos] == n_regions && sw_at[sw_pos] == idx) {
        int me = cur_tid, to = sw_to[sw_pos++];
        if (to != me && to >= 0 && to < cur_team && !done[to]) {
            n_switches++;
            cur_tid = to;
            swapcontext(&ctx[me], &main_ctx);
            cur_tid = me;
        }
    }
}
#define H(n)                                                                                         \
    void __tsan_read##n(void *a) { hook((uintptr_t)a, n, 0, __builtin_return_address(0)); }           \
    void __tsan_write##n(void *a) { hook((uintptr_t)a, n, 1, __builtin_return_address(0)); }          \
    void __tsan_unaligned_read##n(void *a) { hook((uintptr_t)a, n, 0, __builtin_return_address(0)); } \
    void __tsan_unaligned_write##n(void *a) { hook((uintptr_t)a, n, 1, __builtin_return_address(0)); }
H(1) H(2) H(4) H(8) H(16)
void __tsan_init(void) {}
void __tsan_func_entry(void *pc) {}
void __tsan_func_exit(void) {}
void __tsan_read_range(void *a, long n) {
    for (long i = 0; i < n; i++) hook((uintptr_t)a + i, 1, 0, __builtin_return_address(0));
}
void __tsan_write_range(void *a, long n) {
    for (long i = 0; i < n; i++) hook((uintptr_t)a + i, 1, 1, __builtin_return_address(0));
}
void __tsan_vptr_update(void **a, void *b) {}
void __tsan_vptr_read(void **a) {}
