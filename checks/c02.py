"""C02 — phonons equal the lattice Fourier sum of the interatomic force constants.

Product walk over (crystal variant, S, P) x range x layout x svecs storage x language x entry point; for each
tuple the real dynamical matrix is evaluated on a q-set (Gamma, all commensurate q, zone boundary, near-Gamma,
seeded generic q, each also shifted by reciprocal lattice vectors) and compared with the closed-form lattice sum.
"""
from __future__ import annotations

import itertools

import numpy as np

from vtk import phx
from vtk.alphabet import crystals as X
from vtk.alphabet import qsets as Q
from vtk.alphabet import smat as SM
from vtk.ref import lattice as RL
from vtk.ref import springs as SP

ID = "C02"
VARIANT = "omp"
TECHNIQUE = "bounded-exhaustive product walk on the real dynamical-matrix code paths (C, Python, batch solver, API); closed-form lattice-sum oracle"
RULE = ("case = (crystal variant, S, P, range, layout, svecs storage, language, entry point) evaluated on the whole q-set; "
        "non-trivial = the spring model couples atoms across the primitive-cell boundary (some off-diagonal D(q) depends on q)")
ASSUMPTIONS = ["vtk/ref/springs.py lattice sum (self-checked)", "numpy eigvalsh", "VaspToTHz checked against CODATA-2018 value to 1e-6"]
BUDGET = {"quick": 900, "thorough": 3400}
TOL = 1e-10

VASP_TO_THZ = np.sqrt(1.602176634e-19 / 1.66053906660e-27) / 1e-10 / (2 * np.pi) / 1e12

OPTS = {
    # "central": purely central springs (pair blocks k e e^T: whole rows vanish for bonds along a Cartesian axis)
    "range": ["short", "long", "border", "chiral-short", "chiral-long", "central-long"],
    "layout": ["full", "compact"],
    "svecs": ["dense", "sparse"],
    # "@f": the same entry points on an object created with a non-default unit factor ("times the unit factor")
    "path": ["C/dm", "Py/dm", "C/run_qpoints", "C/at_q", "C/run_qpoints@f", "C/at_q@f"],
}

S_QUICK = [np.eye(3, dtype=int).tolist(), [[1, 1, 0], [0, 1, 0], [0, 0, 1]],  # the second one: another basis of the same lattice (det 1)
           [[2, 0, 0], [0, 1, 0], [0, 0, 1]], [[2, 0, 0], [0, 2, 0], [0, 0, 2]],
           [[1, 0, 0], [0, 3, 0], [0, 0, 2]],
           [[1, 1, 0], [-1, 1, 0], [0, 0, 1]], [[2, 1, 0], [0, 1, 0], [0, 0, 1]], [[1, 1, 0], [0, 2, 0], [-1, 0, 2]],
           [[-1, 1, 1], [1, -1, 1], [1, 1, -1]]]
S_MORE = [[[3, 0, 0], [0, 3, 0], [0, 0, 1]], [[2, 0, 0], [1, 1, 0], [0, 1, 2]], [[1, 2, 0], [0, 1, 0], [1, 0, 2]],
          [[3, 1, 0], [0, 1, 0], [0, 0, 1]], [[2, 0, 0], [0, 2, 0], [0, 0, 3]], [[0, 1, 1], [1, 0, 1], [1, 1, 0]]]


def selfcheck():
    SP.selfcheck()
    for Sp in ([[2, 0, 0], [0, 2, 0], [0, 0, 2]], [[1, 1, 0], [-1, 1, 0], [0, 0, 3]], [[-1, 1, 1], [1, -1, 1], [1, 1, -1]]):
        qs = Q.commensurate(Sp)
        assert len(qs) == abs(RL.det3(Sp))
        for q in qs:
            v = np.array(Sp).T @ q
            assert np.abs(v - np.rint(v)).max() < 1e-12


def prefixes(tier, seed):
    cr = X.by_name()
    names = X.QUICK if tier == "quick" else [c["name"] for c in X.all_crystals()]
    Ss = S_QUICK if tier == "quick" else S_QUICK + S_MORE
    maxat = 36 if tier == "quick" else 72
    for name in names:
        c = cr[name]
        vars_ = ["as-is", "reversed"] if tier == "quick" else ["as-is", "reversed", "outside", "shifted"]
        for var in vars_:
            if var == "reversed" and len(c["symbols"]) == 1:
                continue
            for S in Ss:
                if abs(SM.det3(S)) * len(c["symbols"]) > maxat:
                    continue
                for pm in ["none"] + c["centring"] + (["auto"] if var == "as-is" and tier != "quick" else []):
                    yield {"xtal": name, "variant": var, "S": S, "pm": pm}
    # hexagonal cells typed with limited precision in supercells with three-fold boundary ties (images equidistant only to ~1e-7)
    for name in ("hcp-2", "hex-1", "wurtzite-4"):
        for S in ([[3, 0, 0], [0, 3, 0], [0, 0, 1]], [[3, 0, 0], [0, 3, 0], [0, 0, 2]]):
            if abs(SM.det3(S)) * len(cr[name]["symbols"]) <= maxat:
                yield {"xtal": name, "variant": "typed7", "S": S, "pm": "none"}


def plan(tier, seed):
    keys = list(OPTS)
    opts = [dict(zip(keys, t)) for t in itertools.product(*[OPTS[k] for k in keys])]
    if tier == "quick":
        # Python path is slow: restrict it to the two layouts x dense, all ranges
        opts = [o for o in opts if not (o["path"] == "Py/dm" and o["svecs"] == "sparse")]
    groups = []
    for pre in prefixes(tier, seed):
        groups.append([dict(pre, qtier=tier, **o) for o in opts])
    # a primitive cell listed in another atom order (function-level entry points only: the dynamical-matrix classes)
    for name, S_ in (("NaCl-prim-2", [[2, 0, 0], [0, 2, 0], [0, 0, 2]]), ("wurtzite-4", [[2, 0, 0], [0, 1, 0], [0, 0, 1]]), ("tri-P1-3", [[2, 0, 0], [0, 1, 0], [0, 0, 1]]),
                     ("NaCl-conv-8-interleaved", [[1, 0, 0], [0, 1, 0], [0, 0, 1]])):
        pmv = "F" if name.startswith("NaCl-conv") else "none"
        groups.append([dict({"xtal": name, "variant": "as-is", "S": S_, "pm": pmv}, qtier=tier, reorder=True, **o) for o in opts if o["path"] in ("C/dm", "Py/dm")])
    groups.sort(key=lambda g: -abs(SM.det3(g[0]["S"])) * len(X.by_name()[g[0]["xtal"]]["symbols"]))
    meta = {"alphabet": {"prefixes": len(groups), "option_tuples": len(opts), **{k: len(v) for k, v in OPTS.items()},
                         "qset": "Gamma + all commensurate + {0,1/2}^3 + 3 near-Gamma + 4 generic, each + G shifts"},
            "bound": "complete product of the listed alphabets", "exhaustive": True,
            "not_covered": ["q closer than 1e-6 to a commensurability boundary", "supercells above the atom cap"]}
    return groups, meta


def qset(ph, c, S, tier, seed):
    """list of (q, is_commensurate)"""
    Lp = np.asarray(ph.primitive.cell)
    Ls = np.asarray(ph.supercell.cell)
    Sp = np.rint(Ls @ np.linalg.inv(Lp)).astype(int).T  # Ls = Sp^T Lp
    assert np.abs(Sp.T @ Lp - Ls).max() < 1e-6
    out = []
    comm = Q.commensurate(Sp)
    for q in comm:
        out.append((q, True))
    for q in Q.zone_boundary():
        v = Sp.T @ q
        out.append((q, bool(np.abs(v - np.rint(v)).max() < 1e-9)))
    for q in Q.near_gamma() + Q.generic(seed):
        out.append((q, False))
    gs = [np.array([1., 0, -1]), np.array([-1., 1, 1])] if tier == "quick" else [g for g in Q.GSHIFTS if g.any()][::3]
    ext = []
    for k, (q, cm) in enumerate(out):
        for g in (gs if (tier != "quick" or k % 3 == 0) else gs[:1]):
            ext.append((q + g, cm))
    return out + ext


def run_group(cases, seed):
    c = phx.xtal(cases[0]["xtal"], cases[0]["variant"], seed)
    st = {"ph": {}, "fc": {}, "ref": {}, "qs": None, "tier": cases[0].get("qtier", "quick")}
    return [run_case(case, seed, c, st) for case in cases]


def _freqs(D, factor):
    e = np.linalg.eigvalsh(D)
    return np.sign(e) * np.sqrt(np.abs(e)) * factor


def run_case(case, seed, c, st):
    tag = "%s/%s/%s/%s%s" % (case["range"], case["layout"], case["svecs"], case["path"], "/reordered-primitive" if case.get("reorder") else "")
    dense = case["svecs"] == "dense"
    FACTOR = 3.7 if case["path"].endswith("@f") else None
    dense = (dense, FACTOR)
    if dense not in st["ph"]:
        try:
            st["ph"][dense] = phx.make_phonopy(c, case["S"], case["pm"], store_dense_svecs=dense[0], **({"factor": FACTOR} if FACTOR else {}))
            if case.get("reorder") and len(st["ph"][dense].primitive) > 1:
                # primitive cell with its atoms listed in another order than in the supercell (get_primitive(positions_to_reorder=))
                from phonopy.structure.cells import get_primitive

                ph_ = st["ph"][dense]
                want_ = ph_.primitive.scaled_positions[::-1].copy()
                tm_ = (np.asarray(ph_.primitive.cell) @ np.linalg.inv(np.asarray(ph_.supercell.cell))).T
                ph_._primitive = get_primitive(ph_.supercell, tm_, symprec=1e-5, store_dense_svecs=dense[0], positions_to_reorder=want_)
        except Exception as e:
            st["ph"][dense] = e
    ph = st["ph"][dense]
    if isinstance(ph, Exception):
        if case["pm"] == "auto":
            return dict(ok=True, skipped="auto primitive matrix guess raised")
        return dict(ok=False, sig="C02/constructor-raised", msg="%s: %s" % (type(ph).__name__, str(ph)[:200]))
    import phonopy.units as U
    from phonopy.harmonic.dynamical_matrix import DynamicalMatrix

    if abs(U.VaspToTHz / VASP_TO_THZ - 1) > 1e-6:
        return dict(ok=False, sig="C02/unit-factor", msg="VaspToTHz=%r differs from sqrt(eV/amu)/A/2pi=%r" % (U.VaspToTHz, VASP_TO_THZ))
    if case["range"] not in st["fc"]:
        mdl = phx.model_for(ph, case["range"], seed)
        st["fc"][case["range"]] = (mdl, phx.supercell_fc(ph, mdl))
    mdl, ref = st["fc"][case["range"]]
    if st["qs"] is None:
        st["qs"] = qset(ph, c, case["S"], st.get("tier", "quick"), seed)
    qs = st["qs"]
    if case["range"].endswith("long"):
        qs = [(q, cm) for q, cm in qs if cm]
    p2s = np.asarray(ph.primitive.p2s_map)
    fc_in = np.array(ref if case["layout"] == "full" else ref[p2s], dtype="double", order="C")
    lang, entry = case["path"].replace("@f", "").split("/")
    trans = 0
    worst = 0.0
    worst_q = None
    worst_f = 0.0
    qdep = False
    try:
        if entry == "dm":
            dm = DynamicalMatrix(ph.supercell, ph.primitive, fc_in.copy())
            Ds = []
            for q, _ in qs:
                dm.run(q, lang=lang)
                trans += 1
                Ds.append(np.array(dm.dynamical_matrix))
            fr = None
        elif entry == "run_qpoints":
            ph.force_constants = fc_in.copy()
            qlist = [q for q, _ in qs]
            if case["layout"] == "compact":
                qlist = np.asfortranarray(np.array(qlist, dtype="double"))  # the same q-points, Fortran-ordered
            elif case["svecs"] == "sparse":
                wide = np.zeros((len(qlist), 5))
                wide[:, 1:4] = np.array(qlist)
                qlist = wide[:, 1:4]  # ... or as columns of a wider table
            ph.run_qpoints(qlist, with_dynamical_matrices=True)
            trans += len(qs)
            d = ph.get_qpoints_dict()
            Ds = list(d["dynamical_matrices"])
            fr = d["frequencies"]
        else:
            ph.force_constants = fc_in.copy()
            Ds = []
            for q, _ in qs:
                Ds.append(np.array(ph.get_dynamical_matrix_at_q(q)))
                trans += 1
            fr = np.array([ph.get_frequencies(q) for q, _ in qs[:3]])
    except Exception as e:
        return dict(ok=False, sig="C02/raised/" + tag, msg="%s: %s" % (type(e).__name__, str(e)[:300]), transitions=trans)
    D0 = None
    for q, _ in qs:
        key = (case["range"], tuple(np.round(q, 9)))
        if key not in st["ref"]:
            st["ref"][key] = phx.prim_dynmat(ph, q, mdl)
    gscale = max(max(np.abs(st["ref"][(case["range"], tuple(np.round(q, 9)))]).max() for q, _ in qs), 1e-6)
    for k, ((q, cm), D) in enumerate(zip(qs, Ds)):
        key = (case["range"], tuple(np.round(q, 9)))
        Dr = st["ref"][key]
        if D0 is None:
            D0 = Dr
        elif np.abs(Dr - D0).max() > 1e-6 * max(np.abs(D0).max(), 1e-12):
            qdep = True
        scale = gscale
        err = float(np.abs(D - Dr).max() / scale)
        if err > worst:
            worst, worst_q = err, q
        if fr is not None and k < len(fr):
            # well-conditioned form of  f = sign(e) sqrt|e| * factor :  sign(f) (f/factor)^2 == e
            e_ref = np.linalg.eigvalsh(Dr)
            e_got = np.sort(np.sign(fr[k]) * (fr[k] / (FACTOR or U.VaspToTHz)) ** 2)
            eerr = float(np.abs(e_got - e_ref).max() / gscale)
            worst_f = max(worst_f, eerr)
    if worst > TOL:
        return dict(ok=False, sig="C02/dynmat-mismatch/" + tag, resid=worst, transitions=trans, nontrivial=qdep,
                    msg="%s %s S=%s pm=%s %s: max|D-D_ref|/scale=%.3g at q=%s" % (case["xtal"], case["variant"], case["S"], case["pm"], tag, worst, np.round(worst_q, 6).tolist()))
    if worst_f > 1e-9:
        return dict(ok=False, sig="C02/frequency-mismatch/" + tag, resid=worst_f, transitions=trans, nontrivial=qdep,
                    msg="%s S=%s pm=%s %s: reported frequencies differ from sign(e)sqrt|e|*factor by %.3g" % (case["xtal"], case["S"], case["pm"], tag, worst_f))
    return dict(ok=True, resid=worst, transitions=trans, nontrivial=qdep, outcome="ok:nq=%d" % len(qs), count={"q_evaluations": len(qs)})
