#!/venv/bin/python
"""Confirm a seeded change independently: usage  confirm_seed.py C02 1
 - scratch worktree of /repo HEAD under /tmp/cw, patch applied
 - demo fails with the change and passes without it
 - baseline suite: same set of passing tests as BASELINE.json stable_pass
Writes /verif/seeded/<id>-<k>/{patch.diff,demo.py,notes.md,meta.json}; removes the worktree and builds."""
import json, os, shutil, subprocess, sys, xml.etree.ElementTree as ET

pid, k = sys.argv[1], sys.argv[2]
wave = int(os.environ.get("SEED_WAVE", "1"))  # wave n reads /tmp/seed<n>/<id>/<k> and names the result <id>-<k+3(n-1)>
src = "/tmp/seed%s/%s/%s" % ("" if wave == 1 else wave, pid, k)
dst = "/verif/seeded/%s-%d" % (pid, int(k) + 3 * (wave - 1))
wt = "/tmp/cw/%s_%s" % (pid, k)
ext_m = wt + "_ext"
ext_c = "/tmp/cw/clean_ext_" + subprocess.run("git -C /repo rev-parse --short HEAD:c", shell=True, capture_output=True, text=True).stdout.strip()
os.makedirs("/tmp/cw", exist_ok=True)
base = json.load(open("/root/.vp/BASELINE.json"))
stable = set(base["stable_pass"])


def sh(cmd, **kw):
    return subprocess.run(cmd, shell=True, capture_output=True, text=True, **kw)


def passed_set(xml):
    out = set()
    for tc in ET.parse(xml).getroot().iter("testcase"):
        if len([c for c in tc if c.tag in ("failure", "error", "skipped")]) == 0:
            out.add("%s::%s" % (tc.get("classname"), tc.get("name")))
    return out


meta = {"property": pid, "k": k, "repo_head": sh("git -C /repo rev-parse --short HEAD").stdout.strip()}
sh("git -C /repo worktree remove --force %s" % wt)
shutil.rmtree(wt, ignore_errors=True)
r = sh("git -C /repo worktree add -q --detach %s HEAD" % wt)
assert r.returncode == 0, r.stderr
try:
    r = sh("git apply %s/patch.diff" % src, cwd=wt)
    meta["applies"] = r.returncode == 0
    if r.returncode != 0:
        meta["apply_error"] = r.stderr[-500:]
        raise SystemExit
    meta["files"] = sh("git diff --stat", cwd=wt).stdout.strip().splitlines()
    touches_c = any("c/" in l.split("|")[0] for l in meta["files"][:-1])
    if not os.path.exists(ext_c):
        r = sh("/tmp/pbk/build_ext.sh /repo %s" % ext_c)
        assert r.returncode == 0, r.stdout + r.stderr
    if touches_c:
        r = sh("/tmp/pbk/build_ext.sh %s %s" % (wt, ext_m))
        meta["compiles"] = r.returncode == 0
        if r.returncode != 0:
            raise SystemExit
        use_ext = ext_m
    else:
        use_ext = ext_c
    env = dict(os.environ, OMP_NUM_THREADS="4")
    r = sh("/venv/bin/python %s/demo.py %s %s" % (src, wt, use_ext), env=env, timeout=900)
    meta["demo_with_change_rc"] = r.returncode
    meta["demo_with_change_out"] = (r.stdout + r.stderr)[-600:]
    r = sh("/venv/bin/python %s/demo.py /repo %s" % (src, ext_c), env=env, timeout=900)
    meta["demo_clean_rc"] = r.returncode
    meta["demo_clean_out"] = (r.stdout + r.stderr)[-300:]
    xml = "/tmp/cw/%s_%s.xml" % (pid, k)
    r = sh("/venv/bin/python -m pytest -q -p no:cacheprovider --timeout=900 --continue-on-collection-errors --junitxml=%s -x --co -q >/dev/null 2>&1; /venv/bin/python -m pytest -q -p no:cacheprovider --timeout=900 --continue-on-collection-errors --junitxml=%s 2>&1 | tail -1" % (xml, xml), cwd=wt, timeout=1800)
    meta["baseline_tail"] = r.stdout.strip()[-200:]
    ps = passed_set(xml)
    meta["baseline_passed"] = len(ps)
    meta["baseline_missing"] = sorted(stable - ps)
    meta["baseline_ok"] = stable <= ps
    os.remove(xml)
finally:
    sh("git -C /repo worktree remove --force %s" % wt)
    shutil.rmtree(wt, ignore_errors=True)
    shutil.rmtree(ext_m, ignore_errors=True)
meta["confirmed"] = bool(meta.get("applies") and meta.get("demo_with_change_rc", 0) != 0 and meta.get("demo_clean_rc", 1) == 0 and meta.get("baseline_ok"))
if meta["confirmed"]:
    os.makedirs(dst, exist_ok=True)
    for f in ("patch.diff", "demo.py", "notes.md"):
        if os.path.exists(os.path.join(src, f)):
            shutil.copy(os.path.join(src, f), dst)
    old = {}
    if os.path.exists(dst + "/meta.json"):
        old = json.load(open(dst + "/meta.json"))
    old.update({"breaks_property": pid, "confirmation": meta,
                "what_i_ran": "tools/confirm_seed.py %s %s (scratch worktree under /tmp/cw: apply, build ext if c/ touched, demo with/without change, full baseline suite compared with BASELINE.json stable_pass)" % (pid, k)})
    json.dump(old, open(dst + "/meta.json", "w"), indent=1)
print(json.dumps({k_: meta[k_] for k_ in meta if k_ in ("confirmed", "applies", "demo_with_change_rc", "demo_clean_rc", "baseline_passed", "baseline_ok", "baseline_missing", "apply_error")}))
