"""Linear tetrahedron method from its geometric definition (independent of the 24x4 vertex-weight case tables).

n(w): fraction of the tetrahedron's volume where the linearly interpolated function is below w (Lehmann-Taut),
g(w) = dn/dw.  Valid for distinct vertex values; callers break ties by an infinitesimal perturbation and stay
away from the vertex values themselves.
"""
from __future__ import annotations

import numpy as np


def n_of(w, e):
    e1, e2, e3, e4 = sorted(float(x) for x in e)
    if w <= e1:
        return 0.0
    if w >= e4:
        return 1.0
    if w < e2:
        return (w - e1) ** 3 / ((e2 - e1) * (e3 - e1) * (e4 - e1))
    if w < e3:
        a = (e2 - e1) ** 2 + 3 * (e2 - e1) * (w - e2) + 3 * (w - e2) ** 2
        b = (e3 - e1 + e4 - e2) / ((e3 - e2) * (e4 - e2)) * (w - e2) ** 3
        return (a - b) / ((e3 - e1) * (e4 - e1))
    return 1.0 - (e4 - w) ** 3 / ((e4 - e1) * (e4 - e2) * (e4 - e3))


def g_of(w, e):
    e1, e2, e3, e4 = sorted(float(x) for x in e)
    if w <= e1 or w >= e4:
        return 0.0
    if w < e2:
        return 3 * (w - e1) ** 2 / ((e2 - e1) * (e3 - e1) * (e4 - e1))
    if w < e3:
        a = 3 * (e2 - e1) + 6 * (w - e2)
        b = 3 * (e3 - e1 + e4 - e2) / ((e3 - e2) * (e4 - e2)) * (w - e2) ** 2
        return (a - b) / ((e3 - e1) * (e4 - e1))
    return 3 * (e4 - w) ** 2 / ((e4 - e1) * (e4 - e2) * (e4 - e3))


def selfcheck():
    rng = np.random.default_rng(0)
    for _ in range(50):
        e = np.sort(rng.uniform(0, 1, 4))
        # Monte Carlo free check is not available; use exact properties: continuity at the vertices, n(e4)=1, dn/dw=g
        for w in (e[1], e[2]):
            assert abs(n_of(w - 1e-9, e) - n_of(w + 1e-9, e)) < 1e-6
        assert abs(n_of(e[3] - 1e-12, e) - 1) < 1e-6
        for w in rng.uniform(e[0], e[3], 5):
            h = 1e-6
            if min(abs(w - e)) < 1e-4:
                continue
            assert abs((n_of(w + h, e) - n_of(w - h, e)) / (2 * h) - g_of(w, e)) < 1e-4 * max(1.0, g_of(w, e))
    # exact value: for vertex values (0,1,1,1)->perturbed the sub-level set {f<w} is a scaled corner: n = w^3
    assert abs(n_of(0.5, (0, 1, 1 + 1e-9, 1 + 2e-9)) - 0.125) < 1e-6
    # (0,0,0,1): n = 1-(1-w)^3
    assert abs(n_of(0.5, (0, 1e-9, 2e-9, 1)) - (1 - 0.125)) < 1e-6
