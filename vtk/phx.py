"""Helpers that drive the real phonopy API from alphabet entries (used by several checks)."""
from __future__ import annotations

import contextlib
import io

import numpy as np

from vtk.alphabet import crystals as X
from vtk.ref import springs as SP

_xt = {}


def xtal(name, variant="as-is", seed=0):
    k = (name, variant, seed)
    if k not in _xt:
        c = X.by_name()[name]
        _xt[k] = next(v for v in X.variants(c, seed) if v["variant"] == variant)
    return _xt[k]


def quiet(fn, *a, **k):
    buf = io.StringIO()
    with contextlib.redirect_stdout(buf):
        return fn(*a, **k)


def pmat_arg(pm):
    if pm in (None, "none"):
        return None
    return pm


def make_phonopy(c, S, pm=None, **kw):
    from phonopy import Phonopy

    cell = X.to_phonopy(c, masses=kw.pop("masses", None), magmoms=kw.pop("magmoms", None))
    return quiet(Phonopy, cell, supercell_matrix=S, primitive_matrix=pmat_arg(pm), **kw)


def model_for(ph, kind, seed=0):
    """Spring model whose range is chosen relative to the supercell: 'short' < half the shortest supercell
    lattice vector, 'long' > the longest supercell basis vector, 'central' = short with k_t = 0,
    'border' = exactly half the shortest vector (pairs at the boundary carry zero weight)."""
    Ls = np.asarray(ph.supercell.cell)
    smin = SP.shortest_lattice_vector(Ls)
    if kind in ("nn", "central-nn"):
        u = ph.unitcell
        rc = 1.45 * nn_distance({"lattice": np.asarray(u.cell), "positions": u.scaled_positions})
        return SP.SpringModel(rc=rc, seed=seed, central=(kind == "central-nn"))
    if kind == "central-long":
        m = model_for(ph, "long", seed)
        return SP.SpringModel(rc=m.rc, seed=seed, central=True)
    if kind.startswith("chiral-"):
        m = model_for(ph, kind[7:], seed)
        return SP.SpringModel(rc=m.rc, seed=seed, chiral=0.4)
    if kind in ("short", "central"):
        rc = 0.49 * smin
        # but make sure something interacts: at least slightly beyond nearest-neighbour distance if possible
    elif kind == "border":
        rc = 0.5 * smin
    elif kind == "long":
        rc = 1.15 * max(np.linalg.norm(Ls, axis=1))
    else:
        raise ValueError(kind)
    return SP.SpringModel(rc=rc, seed=seed, central=(kind == "central"))


def supercell_fc(ph, model):
    sc = ph.supercell
    return SP.folded_fc(np.asarray(sc.cell), sc.positions, sc.symbols, model)


def prim_dynmat(ph, q, model):
    p = ph.primitive
    return SP.dynmat(np.asarray(p.cell), p.positions, p.symbols, p.masses, q, model)


def nn_distance(c):
    """Nearest-neighbour distance of crystal dict c (brute force)."""
    L = np.array(c["lattice"], float)
    pos = np.array(c["positions"], float) @ L
    T = SP.lattice_translations(L, min(np.linalg.norm(L, axis=1))) @ L
    best = 1e9
    for i in range(len(pos)):
        for j in range(len(pos)):
            d = np.linalg.norm(pos[j] + T - pos[i], axis=1)
            d = d[d > 1e-8]
            best = min(best, d.min())
    return best
